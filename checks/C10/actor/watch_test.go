//go:build verif

package actor

import (
	"context"
	"errors"
	"fmt"
	"os"
	"sync"
	"sync/atomic"
	"testing"
	"time"

	"pgregory.net/rapid"

	gerrors "github.com/tochemey/goakt/v4/errors"
	"github.com/tochemey/goakt/v4/internal/vfkit"
	"github.com/tochemey/goakt/v4/internal/vfsched"
	"github.com/tochemey/goakt/v4/log"
	"github.com/tochemey/goakt/v4/supervisor"
)

// ---- C10: each watcher receives exactly one Terminated for a watched actor ------
//
// One watched actor T (child of the harness actor TP, so that the implicit
// parent watch is observable) and 1..4 watcher actors on a real ActorSystem. A
// generated program performs Watch / UnWatch (from the watcher's own turn through
// ReceiveContext, or from an outside goroutine through PID), restarts or stops
// watchers, and finally terminates T by one of seven paths while a generated
// subset of further Watch/UnWatch actions runs concurrently with the
// termination. Every watcher counts the Terminated messages it receives, per
// actor path. The oracle is the death-watch documentation
// (docs/actor/death-watch.mdx, PID.Watch/UnWatch, ReceiveContext.Watch/UnWatch).

const (
	c10Watch    = 0
	c10UnWatch  = 1
	c10RestartW = 2
	c10StopW    = 3
	c10Traffic  = 4
	// actions on the watched actor T itself
	c10SuspendT   = 5 // T fails with an error no directive covers -> suspended (confirmed by IsSuspended)
	c10RestartT   = 6 // T fails with an error whose directive is Restart -> restarted in place by its parent (no shutdown, not a termination)
	c10ReinstateT = 7 // the parent reinstates the suspended T
)

const (
	c10PathShutdown      = 0 // T.Shutdown from an outside goroutine
	c10PathPoisonPill    = 1 // Tell(T, PoisonPill)
	c10PathParentStop    = 2 // TP.Stop(T) from an outside goroutine
	c10PathParentCtxStop = 3 // ctx.Stop(T) inside TP's turn
	c10PathSelfStop      = 4 // ctx.Shutdown() inside T's turn
	c10PathDirective     = 5 // T fails, its supervisor says Stop, TP applies it
	c10PathParentDown    = 6 // TP.Shutdown: freeChildren unwatches, then stops T
	c10PathKill          = 7 // ActorSystem.Kill(name)
	c10NPaths            = 8
)

const (
	c10Cap       = 15 * time.Second
	c10FpSysDown = "stop-directive-races-deathwatch-system-shuts-down"
	c10FpRestart = "terminated-missing-watcher-after-watcher-restart"
)

type c10Action struct {
	Kind   int  `json:"kind"`
	Who    int  `json:"who"`     // watcher index; -1 = the parent TP
	InTurn bool `json:"in_turn"` // through ReceiveContext inside the watcher's turn (else PID method from outside)
}

type c10Case struct {
	Watchers   int         `json:"watchers"`
	Seq        []c10Action `json:"seq"`  // performed one after the other, each completed before the next
	Conc       []c10Action `json:"conc"` // Watch/UnWatch released together with the termination
	Path       int         `json:"path"`
	NoiseSeed  uint64      `json:"noise_seed"`
	NoiseProb  float64     `json:"noise_prob"`
	NoiseSleep int         `json:"noise_sleep"`
}

func (a c10Action) String() string {
	who := fmt.Sprintf("W%d", a.Who)
	if a.Who < 0 {
		who = "TP"
	}
	via := "pid"
	if a.InTurn {
		via = "ctx"
	}
	if a.Kind >= c10SuspendT {
		return [...]string{"SuspendWatched", "SupervisedRestartOfWatched", "ReinstateWatched"}[a.Kind-c10SuspendT]
	}
	return fmt.Sprintf("%s(%s,%s)", [...]string{"Watch", "UnWatch", "Restart", "Stop", "Traffic"}[a.Kind], who, via)
}

func c10PathName(p int) string {
	return [...]string{"Shutdown", "PoisonPill", "Parent.Stop", "ctx.Stop-in-parent-turn", "ctx.Shutdown-in-own-turn", "StopDirective", "ParentShutdown", "System.Kill"}[p]
}

// ---- generator ----------------------------------------------------------------------

func c10Gen(t *rapid.T) c10Case {
	var c c10Case
	c.Watchers = rapid.SampledFrom([]int{1, 2, 2, 3, 3, 4}).Draw(t, "watchers")
	who := func(label string) int {
		// the parent takes part in explicit Watch/UnWatch now and then
		if rapid.IntRange(0, 6).Draw(t, label+"_parent") == 0 {
			return -1
		}
		return rapid.IntRange(0, c.Watchers-1).Draw(t, label)
	}
	n := rapid.OneOf(rapid.IntRange(0, 3), rapid.IntRange(2, 10)).Draw(t, "nseq")
	for i := 0; i < n; i++ {
		a := c10Action{
			Kind:   rapid.SampledFrom([]int{c10Watch, c10Watch, c10Watch, c10Watch, c10Watch, c10UnWatch, c10UnWatch, c10UnWatch, c10RestartW, c10StopW, c10Traffic, c10SuspendT, c10SuspendT, c10RestartT, c10ReinstateT}).Draw(t, "kind"),
			InTurn: rapid.Bool().Draw(t, "in_turn"),
		}
		a.Who = who("who")
		if a.Kind >= c10SuspendT {
			a.Who, a.InTurn = 0, false
		}
		if a.Who < 0 && (a.Kind == c10RestartW || a.Kind == c10StopW) {
			a.Kind = c10Watch // the parent is only stopped by the termination path
		}
		if a.Kind == c10StopW && rapid.IntRange(0, 2).Draw(t, "stop_rare") != 0 {
			a.Kind = c10UnWatch
		}
		c.Seq = append(c.Seq, a)
	}
	nc := rapid.SampledFrom([]int{0, 0, 1, 1, 2, 3}).Draw(t, "nconc")
	for i := 0; i < nc; i++ {
		c.Conc = append(c.Conc, c10Action{
			Kind:   rapid.SampledFrom([]int{c10Watch, c10Watch, c10UnWatch}).Draw(t, "ckind"),
			Who:    who("cwho"),
			InTurn: rapid.Bool().Draw(t, "cin_turn"),
		})
	}
	c.Path = rapid.IntRange(0, c10NPaths-1).Draw(t, "path")
	c.NoiseProb = rapid.SampledFrom([]float64{0, 0.01, 0.05, 0.2, 0.2}).Draw(t, "noise_prob")
	c.NoiseSleep = rapid.SampledFrom([]int{0, 50, 300}).Draw(t, "noise_sleep")
	c.NoiseSeed = rapid.Uint64().Draw(t, "noise_seed")
	return c
}

// ---- instrumented actors ----------------------------------------------------------------

type c10Hist struct {
	mu  sync.Mutex
	ts  atomic.Int64
	evs []string
}

func (h *c10Hist) add(format string, args ...any) {
	n := h.ts.Add(1)
	h.mu.Lock()
	if len(h.evs) < 1000 {
		h.evs = append(h.evs, fmt.Sprintf("%04d %s", n, fmt.Sprintf(format, args...)))
	}
	h.mu.Unlock()
}

type c10Cmd struct {
	Kind   int // c10Watch / c10UnWatch / 100 = stop child / 101 = stop self / 102 = fail
	Target *PID
	Done   chan struct{} // closed when the command has been executed (may be nil)
}
type c10Probe struct{}
type c10Tally struct {
	ByPath map[string]int
	Inc    int64
}

type c10ErrNoRule struct{}

func (c10ErrNoRule) Error() string { return "c10 no directive for me" }

type c10ErrRestart struct{}

func (c10ErrRestart) Error() string { return "c10 restart me" }

type c10ErrStop struct{}

func (c10ErrStop) Error() string { return "c10 stop me" }

type c10Actor struct {
	name      string
	h         *c10Hist
	preStarts atomic.Int64
	postStops atomic.Int64
	postStart atomic.Int64 // incarnation whose PostStart was handled
	mu        sync.Mutex
	byPath    map[string]int
}

func (a *c10Actor) PreStart(*Context) error {
	n := a.preStarts.Add(1)
	a.h.add("%s PreStart #%d", a.name, n)
	return nil
}

func (a *c10Actor) PostStop(*Context) error {
	a.postStops.Add(1)
	a.h.add("%s PostStop", a.name)
	return nil
}

func (a *c10Actor) Receive(ctx *ReceiveContext) {
	switch m := ctx.Message().(type) {
	case *PostStart:
		a.postStart.Store(a.preStarts.Load())
	case *Terminated:
		p := "<nil>"
		if m.ActorPath() != nil {
			p = m.ActorPath().String()
		}
		a.mu.Lock()
		if a.byPath == nil {
			a.byPath = map[string]int{}
		}
		a.byPath[p]++
		a.mu.Unlock()
		a.h.add("%s (incarnation %d) receives Terminated(%s)", a.name, a.preStarts.Load(), p)
	case *c10Cmd:
		switch m.Kind {
		case c10Watch:
			ctx.Watch(m.Target)
			a.h.add("%s ctx.Watch done", a.name)
		case c10UnWatch:
			ctx.UnWatch(m.Target)
			a.h.add("%s ctx.UnWatch done", a.name)
		case 100:
			ctx.Stop(m.Target)
		case 101:
			ctx.Shutdown()
		case 102:
			ctx.Err(c10ErrStop{})
		case 103:
			ctx.Err(c10ErrNoRule{})
		case 104:
			ctx.Err(c10ErrRestart{})
		}
		if m.Done != nil {
			close(m.Done)
		}
	case *c10Probe:
		a.mu.Lock()
		cp := make(map[string]int, len(a.byPath))
		for k, v := range a.byPath {
			cp[k] = v
		}
		a.mu.Unlock()
		ctx.Response(&c10Tally{ByPath: cp, Inc: a.preStarts.Load()})
	}
}

// ---- system under test -------------------------------------------------------------------

var (
	c10Sys    ActorSystem
	c10Z      *PID
	c10Seq    atomic.Int64
	c10SysSeq atomic.Int64
)

func c10Ensure() {
	if c10Sys != nil && c10Sys.Running() && !c10Sys.(*actorSystem).isStopping() {
		return
	}
	var lg log.Logger = log.DiscardLogger
	if p := os.Getenv("C10_DEBUG_LOG"); p != "" {
		f, _ := os.OpenFile(p, os.O_CREATE|os.O_APPEND|os.O_WRONLY, 0o644)
		lg = log.NewSlog(log.WarningLevel, f)
	}
	sys, err := NewActorSystem(fmt.Sprintf("vfC10n%d", c10SysSeq.Add(1)), WithLogger(lg))
	if err != nil {
		panic(fmt.Sprintf("NewActorSystem: %v", err))
	}
	if err := sys.Start(context.Background()); err != nil {
		panic(fmt.Sprintf("Start: %v", err))
	}
	z, err := sys.Spawn(context.Background(), "c10-sentinel", c10Sentinel{}, WithLongLived())
	if err != nil {
		panic(fmt.Sprintf("spawn sentinel: %v", err))
	}
	c10Sys, c10Z = sys, z
}

// c10Sentinel fails on demand with an error no rule exists for: it is suspended
// by the shared supervision consumer, which handles failure signals in FIFO order.
type c10Sentinel struct{}

func (c10Sentinel) PreStart(*Context) error { return nil }
func (c10Sentinel) PostStop(*Context) error { return nil }
func (c10Sentinel) Receive(ctx *ReceiveContext) {
	if _, ok := ctx.Message().(*c10Probe); ok {
		ctx.Err(c10ErrSentinel{})
	}
}

type c10ErrSentinel struct{}

func (c10ErrSentinel) Error() string { return "sentinel" }

func c10Down() bool {
	sys := c10Sys.(*actorSystem)
	return sys.isStopping() || !sys.Running()
}

func c10Wait(limit time.Duration, cond func() bool) bool {
	deadline := time.Now().Add(limit)
	for i := 0; ; i++ {
		if cond() {
			return true
		}
		if time.Now().After(deadline) {
			return false
		}
		if i%16 == 15 && c10Down() {
			return cond()
		}
		if i < 50 {
			time.Sleep(50 * time.Microsecond)
		} else {
			time.Sleep(500 * time.Microsecond)
		}
	}
}

func c10Idle(pid *PID) bool {
	return pid.schedState.Load() == dispatchIdle && pid.mailbox.IsEmpty() && pid.systemMailbox.IsEmpty()
}

// c10SystemDown lets the death watch and the system guardian finish and reports
// whether the actor system shut itself down (finding recorded under C07).
func c10SystemDown() bool {
	if c10Down() {
		return true
	}
	sys := c10Sys.(*actorSystem)
	dw, sg := sys.getDeathWatch(), sys.getSystemGuardian()
	if dw == nil || sg == nil {
		return c10Down()
	}
	c10Wait(5*time.Second, func() bool { return c10Down() || c10Idle(dw) })
	// a failure of the death watch travels: supervision consumer (FIFO; the
	// sentinel's own failure is behind it) -> system guardian -> system stop
	if Tell(context.Background(), c10Z, &c10Probe{}) == nil {
		if c10Wait(5*time.Second, func() bool { return c10Down() || c10Z.IsSuspended() }) && !c10Down() {
			c10Z.doReinstate()
		}
	}
	c10Wait(5*time.Second, func() bool { return c10Down() || c10Idle(sg) })
	return c10Down()
}

// ---- model ---------------------------------------------------------------------------------

type c10MW struct {
	running   bool
	watching  bool // last completed Watch/UnWatch action was Watch
	ambiguous bool // took part in an action concurrent with the termination
	unknown   bool // restarted since its last completed Watch/UnWatch: whether a restart keeps the watches is not specified
	base      int  // Terminated received (and accounted for) at a supervised restart of the watched actor
	inc       int64
}

// ---- execution -------------------------------------------------------------------------------

type c10Run struct {
	x    *vfkit.X
	h    *c10Hist
	acts []*c10Actor // 0 = TP, 1.. = watchers
	pids []*PID
	m    []*c10MW
	t    *PID
	ta   *c10Actor
}

func (r *c10Run) fail(fp, format string, args ...any) {
	r.h.mu.Lock()
	evs := append([]string(nil), r.h.evs...)
	r.h.mu.Unlock()
	for _, e := range evs {
		r.x.Logf("%s", e)
	}
	r.x.Failf(fp, format, args...)
}

func (r *c10Run) idx(who int) int { return who + 1 } // -1 -> 0 (TP)

// do performs a Watch/UnWatch. wait=false: returns a channel closed on completion.
func (r *c10Run) do(a c10Action) (done chan struct{}, issued bool) {
	i := r.idx(a.Who)
	pid := r.pids[i]
	done = make(chan struct{})
	if a.InTurn {
		if err := Tell(context.Background(), pid, &c10Cmd{Kind: a.Kind, Target: r.t, Done: done}); err != nil {
			return nil, false
		}
		return done, true
	}
	if a.Kind == c10Watch {
		pid.Watch(r.t)
	} else {
		pid.UnWatch(r.t)
	}
	close(done)
	return done, true
}

// tally reads how many Terminated naming tPath watcher i has received.
// Two probes: runTurn looks at the system mailbox and then at the user mailbox
// once per iteration, so ONE user message sent after a Terminated was enqueued
// can still overtake it (the worker may be between the two looks). The
// iteration after that user message serves the system mailbox first, so the
// second probe is behind every Terminated enqueued before the first was sent.
// ok=false: inconclusive (class recorded).
func (r *c10Run) tally(i int, tPath string) (int, bool) {
	ctx := context.Background()
	name := r.acts[i].name
	var resp any
	for k := 0; k < 2; k++ {
		var err error
		resp, err = Ask(ctx, r.pids[i], &c10Probe{}, c10Cap)
		if err != nil {
			if errors.Is(err, gerrors.ErrRequestTimeout) {
				r.x.Class("inconclusive_probe_timeout")
				return 0, false
			}
			r.fail("probe-running-watcher-fails", "Ask(probe) to %s failed: %v (model: running)", name, err)
		}
	}
	tally, _ := resp.(*c10Tally)
	if tally == nil {
		r.fail("probe-running-watcher-fails", "probe of %s answered %v", name, resp)
	}
	for p, n := range tally.ByPath {
		if p != tPath && n > 0 {
			r.fail("terminated-names-unwatched-actor", "%s received %d Terminated(%s); it only ever watched %s", name, n, p, tPath)
		}
	}
	return tally.ByPath[tPath], true
}

func c10Exec(x *vfkit.X, c c10Case) {
	c10Ensure()
	defer func() {
		p := recover()
		if c10SystemDown() {
			if x.Known(c10FpSysDown) || vfkit.Known("C07", c10FpSysDown) {
				// recorded under C07 (the Stop directive path races the death watch and
				// brings the whole system down); not a statement about Terminated
				x.Class("known_c07_system_shutdown")
				return
			}
			x.Failf(c10FpSysDown, "the actor system shut itself down during this program (death watch failed and escalated)")
		}
		if p != nil {
			panic(p)
		}
	}()
	ctx := context.Background()
	r := &c10Run{x: x, h: &c10Hist{}}
	if c.NoiseProb > 0 {
		vfsched.SetNoise(c.NoiseSeed, c.NoiseProb, c.NoiseSleep)
		defer vfsched.SetNoise(0, 0, 0)
		x.Class("noise_on")
	}
	id := c10Seq.Add(1)
	mk := func(name string) *c10Actor {
		a := &c10Actor{name: name, h: r.h}
		return a
	}
	var spawned []*PID
	defer func() {
		vfsched.SetNoise(0, 0, 0)
		for _, p := range spawned {
			_ = p.Shutdown(context.Background())
		}
	}()
	tpName := fmt.Sprintf("c10-%d-TP", id)
	tpa := mk(tpName)
	tp, err := c10Sys.Spawn(ctx, tpName, tpa, WithLongLived())
	if err != nil {
		panic(fmt.Sprintf("spawn TP: %v", err))
	}
	spawned = append(spawned, tp)
	r.acts, r.pids, r.m = append(r.acts, tpa), append(r.pids, tp), append(r.m, &c10MW{running: true, watching: true, inc: 1})
	tName := fmt.Sprintf("c10-%d-T", id)
	r.ta = mk(tName)
	sup := supervisor.NewSupervisor(
		supervisor.WithDirective(c10ErrStop{}, supervisor.StopDirective),
		supervisor.WithDirective(c10ErrRestart{}, supervisor.RestartDirective))
	r.t, err = tp.SpawnChild(ctx, tName, r.ta, WithSupervisor(sup), WithLongLived())
	if err != nil {
		panic(fmt.Sprintf("spawn T: %v", err))
	}
	tPath := r.t.Path().String()
	for i := 0; i < c.Watchers; i++ {
		wn := fmt.Sprintf("c10-%d-W%d", id, i)
		wa := mk(wn)
		wp, err := c10Sys.Spawn(ctx, wn, wa, WithLongLived())
		if err != nil {
			panic(fmt.Sprintf("spawn W: %v", err))
		}
		spawned = append(spawned, wp)
		r.acts, r.pids, r.m = append(r.acts, wa), append(r.pids, wp), append(r.m, &c10MW{running: true, inc: 1})
	}

	// ---- sequential phase
	unwatches := 0
	tSuspended := false
	tInc := int64(1)
	for si, a := range c.Seq {
		if a.Kind >= c10SuspendT {
			switch {
			case a.Kind == c10SuspendT && !tSuspended:
				r.h.add("seq %d: %s", si, a)
				if err := Tell(ctx, r.t, &c10Cmd{Kind: 103}); err != nil {
					r.fail("tell-to-running-actor-fails", "seq %d: the failure could not be sent to the running watched actor: %v", si, err)
				}
				if !c10Wait(c10Cap, func() bool { return r.t.IsSuspended() }) {
					x.Class("inconclusive_suspend_timeout")
					return
				}
				tSuspended = true
				x.Class("watched_suspended")
			case a.Kind == c10ReinstateT && tSuspended:
				r.h.add("seq %d: %s", si, a)
				if err := tp.Reinstate(r.t); err != nil {
					x.Class("inconclusive_reinstate_failed")
					return
				}
				if !c10Wait(c10Cap, func() bool { return r.t.IsRunning() }) {
					x.Class("inconclusive_reinstate_failed")
					return
				}
				tSuspended = false
				x.Class("watched_reinstated")
			case a.Kind == c10RestartT && !tSuspended:
				r.h.add("seq %d: %s", si, a)
				if err := Tell(ctx, r.t, &c10Cmd{Kind: 104}); err != nil {
					r.fail("tell-to-running-actor-fails", "seq %d: the failure could not be sent to the running watched actor: %v", si, err)
				}
				tInc++
				if !c10Wait(c10Cap, func() bool {
					return r.ta.preStarts.Load() >= tInc && r.ta.postStart.Load() >= tInc && r.t.IsRunning()
				}) {
					x.Class("inconclusive_watched_restart_timeout")
					return
				}
				x.Class("watched_restarted_by_supervisor")
				// A supervised restart is not a termination. Whether watchers are told
				// at that point is not decided by the property: a watcher may have
				// received 0 or 1; one that was told has had its notification (its watch
				// is treated as consumed), the others keep watching and must be told
				// when the actor really terminates.
				for i, mw := range r.m {
					if !mw.running {
						continue
					}
					n, ok := r.tally(i, tPath)
					if !ok {
						return
					}
					got := n - mw.base
					switch {
					case got > 1:
						r.fail("terminated-delivered-twice-at-restart", "%s received %d Terminated for %s during its supervised restart", r.acts[i].name, got, tName)
					case got == 1 && !mw.watching && !mw.unknown:
						r.fail("terminated-after-unwatch-at-restart", "%s does not watch %s but received a Terminated during its supervised restart", r.acts[i].name, tName)
					case got == 1:
						mw.base, mw.watching, mw.unknown = n, false, false
						x.Class("terminated_told_at_supervised_restart")
					}
				}
				// The restart re-attaches the child under its parent, which
				// re-establishes the implicit parent watch (tree.attachNodeLocked:
				// "reestablishes parent/child and watcher/watchee relationships"). Whether
				// that overrides an explicit UnWatch by the parent is not specified: a
				// parent that had unwatched may receive 0 or 1 from here on.
				if pm := r.m[0]; pm.running && !pm.watching {
					pm.unknown = true
					x.Class("parent_watch_unspecified_after_child_restart")
				}
			default:
				x.Class("action_skipped_watched_state")
			}
			continue
		}
		i := r.idx(a.Who)
		mw := r.m[i]
		if !mw.running {
			x.Class("action_skipped_watcher_stopped")
			continue
		}
		r.h.add("seq %d: %s", si, a)
		switch a.Kind {
		case c10Watch, c10UnWatch:
			done, issued := r.do(a)
			if !issued {
				r.fail("tell-to-running-actor-fails", "seq %d: %s could not be sent to a running watcher", si, a)
			}
			select {
			case <-done:
			case <-time.After(c10Cap):
				x.Class("inconclusive_command_timeout")
				return
			}
			mw.watching, mw.unknown = a.Kind == c10Watch, false
			if a.Kind == c10UnWatch {
				unwatches++
			}
		case c10RestartW:
			if err := r.pids[i].Restart(ctx); err != nil {
				x.Class("inconclusive_watcher_restart_failed")
				r.h.add("restart of %s failed: %v", r.acts[i].name, err)
				return
			}
			// "When an actor stops, the system automatically calls UnWatch on all
			// actors it was watching"; whether that also holds for the stop inside a
			// restart is not stated: a watcher that watched before its restart may
			// receive 0 or 1 until its next completed Watch/UnWatch
			if mw.watching {
				mw.unknown = true
			}
			mw.inc++
			x.Class("watcher_restarted")
			if !c10Wait(c10Cap, func() bool { return r.pids[i].IsRunning() }) {
				x.Class("inconclusive_watcher_restart_failed")
				return
			}
		case c10StopW:
			if err := r.pids[i].Shutdown(ctx); err != nil {
				x.Class("inconclusive_watcher_stop_failed")
				return
			}
			mw.running = false
			x.Class("watcher_stopped")
		case c10Traffic:
			_ = Tell(ctx, r.t, &c10Probe{})
		}
	}

	// ---- termination, concurrent with the Conc actions
	start := make(chan struct{})
	var wg sync.WaitGroup
	var concDone []chan struct{}
	var cmu sync.Mutex
	for _, a := range c.Conc {
		i := r.idx(a.Who)
		if !r.m[i].running {
			continue
		}
		r.m[i].ambiguous = true
		a := a
		wg.Add(1)
		go func() {
			defer wg.Done()
			<-start
			done, issued := r.do(a)
			if issued {
				cmu.Lock()
				concDone = append(concDone, done)
				cmu.Unlock()
			}
		}()
	}
	path := c.Path
	if tSuspended {
		// a suspended actor takes no messages: only the paths that stop it from outside apply
		path = []int{c10PathShutdown, c10PathParentStop, c10PathParentCtxStop, c10PathParentDown, c10PathKill}[c.Path%5]
		x.Class("terminated_while_suspended")
	}
	r.h.add("terminate T by %s, concurrent: %v", c10PathName(path), c.Conc)
	x.Class("path_" + c10PathName(path))
	var termErr error
	wg.Add(1)
	go func() {
		defer wg.Done()
		<-start
		switch path {
		case c10PathShutdown:
			termErr = r.t.Shutdown(ctx)
		case c10PathPoisonPill:
			termErr = Tell(ctx, r.t, &PoisonPill{})
		case c10PathParentStop:
			termErr = tp.Stop(ctx, r.t)
		case c10PathParentCtxStop:
			termErr = Tell(ctx, tp, &c10Cmd{Kind: 100, Target: r.t})
		case c10PathSelfStop:
			termErr = Tell(ctx, r.t, &c10Cmd{Kind: 101})
		case c10PathDirective:
			termErr = Tell(ctx, r.t, &c10Cmd{Kind: 102})
		case c10PathParentDown:
			termErr = tp.Shutdown(ctx)
		case c10PathKill:
			termErr = c10Sys.Kill(ctx, tName)
		}
	}()
	close(start)
	wg.Wait()
	if termErr != nil {
		r.fail("termination-call-fails", "terminating T by %s failed: %v", c10PathName(path), termErr)
	}
	if path == c10PathParentDown {
		r.m[0].running = false
	}
	// completion: PostStop ran and the running flag is cleared (doStop clears it
	// after freeWatchers has told every watcher)
	if !c10Wait(c10Cap, func() bool { return r.ta.postStops.Load() >= 1 && !r.t.isStateSet(runningState) }) {
		x.Class("inconclusive_termination_timeout")
		return
	}
	for _, d := range concDone {
		select {
		case <-d:
		case <-time.After(c10Cap):
			x.Class("inconclusive_command_timeout")
			return
		}
	}
	if n := r.ta.postStops.Load(); n < 1 || n > r.ta.preStarts.Load() {
		r.fail("watched-actor-poststop-count", "PostStop of the watched actor ran %d times, PreStart %d times", n, r.ta.preStarts.Load())
	}

	// ---- barrier + verdict: Terminated travels through the system mailbox
	amb := 0
	for i, mw := range r.m {
		if mw.ambiguous {
			amb++
		}
		if !mw.running {
			continue
		}
		name := r.acts[i].name
		n, ok := r.tally(i, tPath)
		if !ok {
			return
		}
		got := n - mw.base
		r.h.add("verdict: %s got %d Terminated (watching=%v ambiguous=%v)", name, got, mw.watching, mw.ambiguous)
		role := "watcher"
		if i == 0 {
			role = "parent"
		}
		switch {
		case got > 1:
			r.fail("terminated-delivered-twice-"+role, "%s received %d Terminated for %s by %s", name, got, tName, c10PathName(path))
		case mw.unknown && !mw.ambiguous:
			x.Class("watch_state_unspecified_after_restart")
		case mw.ambiguous:
			if got == 1 {
				x.Class("concurrent_action_got_terminated")
			} else {
				x.Class("concurrent_action_got_none")
			}
		case mw.watching && got != 1:
			fp := "terminated-missing-" + role
			_, inTree := c10Sys.(*actorSystem).tree().node(r.pids[i].ID())
			if mw.inc > 1 && !inTree {
				// F-C10-1: the restarted watcher is running but no longer registered in
				// the actor tree (the death watch deleted its node after the restart had
				// re-attached it), so its Watch calls are silently dropped
				fp = c10FpRestart
				if x.Known(fp) {
					x.Class("known_restarted_watcher_dropped_from_tree")
					continue
				}
			}
			r.fail(fp, "%s watches %s (its last completed action before the termination was Watch) and is running, but received %d Terminated after termination by %s (watcher incarnation %d, watcher registered in the actor tree: %v)", name, tName, got, c10PathName(c.Path), mw.inc, inTree)
		case !mw.watching && got != 0:
			r.fail("terminated-after-unwatch-"+role, "%s does not watch %s (its last completed action was UnWatch / it never watched / it was restarted since) but received %d Terminated after termination by %s", name, tName, got, c10PathName(path))
		}
	}
	if c.Watchers >= 2 {
		x.Class("watchers_2plus")
	}
	if unwatches > 0 {
		x.Class("has_completed_unwatch")
	}
	if amb > 0 {
		x.Class("has_concurrent_action")
	}
	if c.Watchers >= 2 && (unwatches > 0 || amb > 0) {
		x.NonTrivial()
	}
}

func TestVF_C10_terminated(t *testing.T) {
	t.Cleanup(func() {
		if c10Sys != nil && c10Sys.Running() {
			_ = c10Sys.Stop(context.Background())
		}
	})
	vfkit.Run(t, vfkit.Spec[c10Case]{
		ID: "C10", Unit: "terminated",
		Rule: "cases = one watched actor (child of a harness parent) + 1..4 watcher actors on a real ActorSystem; a sequence of 0..10 completed actions (Watch/UnWatch through PID or through ReceiveContext in the watcher's turn, by a watcher or by the parent; watcher Restart; watcher Stop; traffic; suspension of the watched actor by a failure without directive, its Reinstate, its supervised in-place restart), then one of 8 termination paths (the 5 outside-stop paths when the watched actor is suspended) released together with 0..3 concurrent Watch/UnWatch actions, under generated schedule noise; non-trivial = >= 2 watchers and (a completed UnWatch or an action concurrent with the termination); distinct = distinct programs",
		Gen:  c10Gen, Exec: c10Exec,
		ReplayReps: 50,
	})
}

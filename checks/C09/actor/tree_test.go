//go:build verif

package actor

import (
	"fmt"
	"sort"
	"strings"
	"testing"

	"pgregory.net/rapid"

	"github.com/tochemey/goakt/v4/internal/address"
	"github.com/tochemey/goakt/v4/internal/vfkit"
	"github.com/tochemey/goakt/v4/log"
)

// ---- C09 / unit "tree": sequential model-based check of the PID tree ------------
//
// The in-package `tree` type (pid_tree.go) is driven with generated sequences of
// the operations the actor system performs on it (addRootNode, addNode,
// addOrAttachNode, addWatcher, removeWatcher, removeDescendant, deleteNode,
// reset) over a pool of bare PIDs. A reference model written from the doc
// comments of pid_tree.go (plain maps, keyed by PID.ID()) is advanced in lock
// step; after every operation EVERY query of the tree (count, nodes, node,
// nodeByName, root, parent, children, descendants, siblings, watchers,
// watchees) is compared with the model for every PID of the pool.

const (
	c09tAddRoot = iota
	c09tAddNode
	c09tAddOrAttach
	c09tAddWatcher
	c09tRemoveWatcher
	c09tRemoveDescendant
	c09tDeleteNode
	c09tReset
)

var c09tOpNames = []string{"addRootNode", "addNode", "addOrAttachNode", "addWatcher", "removeWatcher", "removeDescendant", "deleteNode", "reset"}

// The pool. Index 0 is the root. Three PIDs share the Name "x" under different
// parents (names index collisions happen in a real system when two parents give
// their children the same name); index 9 is a second *PID object carrying the
// same ID as index 1 (what a re-spawn of a stopped name produces).
type c09tSpec struct {
	name   string
	parent int // index of the address parent (-1: none); only shapes the ID
}

var c09tPool = []c09tSpec{
	{"r", -1},  // 0 root
	{"a", -1},  // 1
	{"b", -1},  // 2
	{"c", -1},  // 3
	{"d", -1},  // 4
	{"x", 1},   // 5  id .../a/x
	{"x", 2},   // 6  id .../b/x
	{"x", -1},  // 7  id .../x
	{"e", 3},   // 8  id .../c/e
	{"a", -1},  // 9  same ID as 1, different *PID
	{"nil", 0}, // 10 stands for the nil PID
}

const c09tNil = 10

type c09tOp struct {
	Kind int `json:"kind"`
	A    int `json:"a"` // first PID argument (parent / pid / watchee) as pool index
	B    int `json:"b"` // second PID argument (pid / watcher / child)
}

func (o c09tOp) String() string {
	return fmt.Sprintf("%s(%d,%d)", c09tOpNames[o.Kind], o.A, o.B)
}

type c09tCase struct {
	Ops []c09tOp `json:"ops"`
}

// ---- reference model ------------------------------------------------------------

type c09tNode struct {
	id, name string
	pidIdx   int       // pool index of the registered *PID
	parent   *c09tNode // node object the child was linked under (may be unregistered later)
	children map[string]*c09tNode
	watchers map[string]bool
	watchees map[string]bool
	live     bool
}

type c09tModel struct {
	ids  []string // pool index -> ID
	nms  []string // pool index -> Name
	reg  map[string]*c09tNode
	root *c09tNode
	// byName: candidates for nodeByName. When a name was held by at most one
	// registered node at a time since it was last free ("clean"), the lookup is
	// fully determined; otherwise only "no stale answer" is required.
	dirty map[string]bool
}

func c09tNewModel(ids, nms []string) *c09tModel {
	return &c09tModel{ids: ids, nms: nms, reg: map[string]*c09tNode{}, dirty: map[string]bool{}}
}

func (m *c09tModel) holders(name string) []*c09tNode {
	var out []*c09tNode
	for _, n := range m.reg {
		if n.name == name {
			out = append(out, n)
		}
	}
	return out
}

func (m *c09tModel) register(idx int, parent *c09tNode) *c09tNode {
	n := &c09tNode{id: m.ids[idx], name: m.nms[idx], pidIdx: idx, parent: parent,
		children: map[string]*c09tNode{}, watchers: map[string]bool{}, watchees: map[string]bool{}, live: true}
	if len(m.holders(n.name)) > 0 {
		m.dirty[n.name] = true
	}
	m.reg[n.id] = n
	return n
}

// apply advances the model and returns whether the operation must report an
// error (ok=false: error expected). For operations without a result it returns true.
func (m *c09tModel) apply(op c09tOp) (wantErr bool) {
	isNil := func(i int) bool { return i == c09tNil }
	switch op.Kind {
	case c09tAddRoot:
		if isNil(op.A) {
			return true
		}
		if _, ok := m.reg[m.ids[op.A]]; ok {
			return true
		}
		m.root = m.register(op.A, nil)
	case c09tAddNode:
		return m.addNode(op.A, op.B)
	case c09tAddOrAttach:
		if isNil(op.A) || isNil(op.B) {
			return false // documented no-op
		}
		child, ok := m.reg[m.ids[op.B]]
		if !ok {
			return m.addNode(op.A, op.B)
		}
		p, ok := m.reg[m.ids[op.A]]
		if !ok {
			return true
		}
		child.parent = p
		p.children[child.id] = child
		p.watchees[child.id] = true
		child.watchers[p.id] = true
	case c09tAddWatcher:
		if isNil(op.A) || isNil(op.B) {
			return false
		}
		p, ok1 := m.reg[m.ids[op.A]]
		w, ok2 := m.reg[m.ids[op.B]]
		if ok1 && ok2 {
			p.watchers[w.id] = true
			w.watchees[p.id] = true
		}
	case c09tRemoveWatcher:
		if isNil(op.A) || isNil(op.B) {
			return false
		}
		if w, ok := m.reg[m.ids[op.B]]; ok {
			delete(w.watchees, m.ids[op.A])
		}
		if p, ok := m.reg[m.ids[op.A]]; ok {
			delete(p.watchers, m.ids[op.B])
		}
	case c09tRemoveDescendant:
		if isNil(op.A) || isNil(op.B) {
			return false
		}
		if p, ok := m.reg[m.ids[op.A]]; ok {
			delete(p.children, m.ids[op.B])
		}
	case c09tDeleteNode:
		if isNil(op.A) {
			return false
		}
		n, ok := m.reg[m.ids[op.A]]
		if !ok {
			return false
		}
		var sub []*c09tNode
		var walk func(x *c09tNode)
		walk = func(x *c09tNode) {
			for _, c := range x.children {
				walk(c)
			}
			sub = append(sub, x) // children before parents
		}
		walk(n)
		for _, x := range sub {
			if !x.live {
				continue
			}
			for w := range x.watchers {
				if wn, ok := m.reg[w]; ok {
					delete(wn.watchees, x.id)
				}
			}
			for w := range x.watchees {
				if wn, ok := m.reg[w]; ok {
					delete(wn.watchers, x.id)
				}
			}
			if x.parent != nil {
				delete(x.parent.children, x.id)
				delete(x.parent.watchees, x.id)
			}
			delete(m.reg, x.id)
			x.live = false
			if len(m.holders(x.name)) == 0 {
				delete(m.dirty, x.name)
			}
			if x == m.root {
				m.root = nil
			}
		}
	case c09tReset:
		m.reg = map[string]*c09tNode{}
		m.dirty = map[string]bool{}
		m.root = nil
	}
	return false
}

func (m *c09tModel) addNode(parent, pid int) (wantErr bool) {
	if parent == c09tNil || pid == c09tNil {
		return true
	}
	if _, ok := m.reg[m.ids[pid]]; ok {
		return true
	}
	p, ok := m.reg[m.ids[parent]]
	if !ok {
		return true
	}
	n := m.register(pid, p)
	p.children[n.id] = n
	p.watchees[n.id] = true
	n.watchers[p.id] = true
	return false
}

func (m *c09tModel) subtreeIDs(n *c09tNode) []string {
	var out []string
	var walk func(x *c09tNode)
	walk = func(x *c09tNode) {
		for _, c := range x.children {
			if c.live {
				out = append(out, c.id)
			}
			walk(c)
		}
	}
	walk(n)
	sort.Strings(out)
	return out
}

func c09tKeys(m map[string]bool) []string {
	out := make([]string, 0, len(m))
	for k := range m {
		out = append(out, k)
	}
	sort.Strings(out)
	return out
}

func c09tPidIDs(ps []*PID) []string {
	out := make([]string, 0, len(ps))
	for _, p := range ps {
		if p == nil {
			out = append(out, "<nil>")
		} else {
			out = append(out, p.ID())
		}
	}
	sort.Strings(out)
	return out
}

func c09tSame(a, b []string) bool {
	if len(a) != len(b) {
		return false
	}
	for i := range a {
		if a[i] != b[i] {
			return false
		}
	}
	return true
}

// ---- generator --------------------------------------------------------------------
//
// The generator runs the reference model while drawing, so that most operations
// hit registered nodes (construction instead of rejection), and respects the
// preconditions every real caller of the tree guarantees:
//   - addRootNode is the first operation on a fresh (or reset) tree;
//   - deleteNode of the root is followed by reset (actorSystem.shutdown does
//     deleteNode(rootGuardian) and then reset()): the tree is never re-rooted
//     without a reset;
//   - addOrAttachNode of a registered pid names the parent the pid already has
//     (restartSubtree passes tree.parent(pid)).

func c09tGen(t *rapid.T) c09tCase {
	ids, nms := c09tIdentities()
	m := c09tNewModel(ids, nms)
	n := rapid.OneOf(rapid.IntRange(2, 12), rapid.IntRange(10, 40), rapid.IntRange(30, 70)).Draw(t, "nops")
	var ops []c09tOp
	push := func(op c09tOp) {
		ops = append(ops, op)
		m.apply(op)
	}
	regIdx := func() []int {
		var out []int
		for _, nd := range m.reg {
			out = append(out, nd.pidIdx)
		}
		sort.Ints(out)
		return out
	}
	anyIdx := func(label string) int {
		// registered indices are preferred 3:1; the nil PID is rare
		r := regIdx()
		k := rapid.IntRange(0, 15).Draw(t, label+"-how")
		switch {
		case k == 0:
			return c09tNil
		case k <= 11 && len(r) > 0:
			return rapid.SampledFrom(r).Draw(t, label)
		default:
			return rapid.IntRange(1, 9).Draw(t, label)
		}
	}
	for len(ops) < n {
		if m.root == nil {
			if len(ops) > 0 {
				push(c09tOp{Kind: c09tReset}) // shutdown: deleteNode(root) is followed by reset()
			}
			push(c09tOp{Kind: c09tAddRoot, A: 0})
			continue
		}
		kind := rapid.SampledFrom([]int{
			c09tAddNode, c09tAddNode, c09tAddNode, c09tAddNode, c09tAddNode, c09tAddNode,
			c09tAddOrAttach, c09tAddOrAttach,
			c09tAddWatcher, c09tAddWatcher, c09tAddWatcher,
			c09tRemoveWatcher, c09tRemoveWatcher,
			c09tRemoveDescendant,
			c09tDeleteNode, c09tDeleteNode, c09tDeleteNode,
			c09tAddRoot, c09tReset,
		}).Draw(t, "kind")
		switch kind {
		case c09tAddRoot:
			// a second addRootNode while a root exists: must fail without side effects.
			// Only the registered root itself is offered (any other PID would re-root
			// the tree, which no caller does).
			push(c09tOp{Kind: c09tAddRoot, A: rapid.SampledFrom([]int{0, c09tNil}).Draw(t, "root-arg")})
		case c09tReset:
			if rapid.IntRange(0, 3).Draw(t, "really-reset") == 0 {
				push(c09tOp{Kind: c09tReset})
			}
		case c09tAddNode:
			// usually: registered parent (deep ones preferred), unregistered pid
			a, b := anyIdx("parent"), anyIdx("pid")
			if rapid.IntRange(0, 9).Draw(t, "add-well-formed") < 8 {
				var free []int
				for i := 1; i <= 9; i++ {
					if _, ok := m.reg[ids[i]]; !ok {
						free = append(free, i)
					}
				}
				if len(free) > 0 {
					b = rapid.SampledFrom(free).Draw(t, "free-pid")
				}
				r := regIdx()
				var nonRoot []int
				for _, i := range r {
					if i != 0 {
						nonRoot = append(nonRoot, i)
					}
				}
				if len(nonRoot) > 0 && rapid.IntRange(0, 2).Draw(t, "deep") > 0 {
					a = rapid.SampledFrom(nonRoot).Draw(t, "deep-parent")
				} else if len(r) > 0 {
					a = rapid.SampledFrom(r).Draw(t, "reg-parent")
				}
			}
			push(c09tOp{Kind: c09tAddNode, A: a, B: b})
		case c09tAddOrAttach:
			b := anyIdx("pid")
			a := anyIdx("parent")
			if b != c09tNil {
				if nd, ok := m.reg[ids[b]]; ok {
					if nd.parent == nil || !nd.parent.live {
						continue // the root / an orphan is never re-attached by a caller
					}
					a = nd.parent.pidIdx
				}
			}
			push(c09tOp{Kind: c09tAddOrAttach, A: a, B: b})
		case c09tAddWatcher:
			push(c09tOp{Kind: c09tAddWatcher, A: anyIdx("watchee"), B: anyIdx("watcher")})
		case c09tRemoveWatcher:
			push(c09tOp{Kind: c09tRemoveWatcher, A: anyIdx("watchee"), B: anyIdx("watcher")})
		case c09tRemoveDescendant:
			// freeChildren: parent, one of its children (sometimes an unrelated pair)
			a := anyIdx("parent")
			b := anyIdx("child")
			if a != c09tNil {
				if nd, ok := m.reg[ids[a]]; ok && len(nd.children) > 0 && rapid.IntRange(0, 3).Draw(t, "real-child") > 0 {
					var cs []int
					for _, c := range nd.children {
						cs = append(cs, c.pidIdx)
					}
					sort.Ints(cs)
					b = rapid.SampledFrom(cs).Draw(t, "child-of")
				}
			}
			push(c09tOp{Kind: c09tRemoveDescendant, A: a, B: b})
		case c09tDeleteNode:
			a := anyIdx("victim")
			// prefer victims that have registered descendants
			var big []int
			for _, nd := range m.reg {
				if nd != m.root && len(m.subtreeIDs(nd)) >= 1 {
					big = append(big, nd.pidIdx)
				}
			}
			sort.Ints(big)
			if len(big) > 0 && rapid.IntRange(0, 2).Draw(t, "delete-inner") > 0 {
				a = rapid.SampledFrom(big).Draw(t, "inner-victim")
			}
			if len(m.reg) < 4 && rapid.IntRange(0, 3).Draw(t, "delete-early") > 0 {
				continue // let the tree grow first
			}
			if a == 0 && rapid.IntRange(0, 2).Draw(t, "delete-root") > 0 {
				continue
			}
			push(c09tOp{Kind: c09tDeleteNode, A: a})
		}
	}
	return c09tCase{Ops: ops}
}

// ---- system under test ------------------------------------------------------------

var c09tSys ActorSystem

func c09tIdentities() (ids, nms []string) {
	pids := c09tMakePIDs()
	for _, p := range pids {
		if p == nil {
			ids = append(ids, "<nil>")
			nms = append(nms, "")
			continue
		}
		ids = append(ids, p.ID())
		nms = append(nms, p.Name())
	}
	return
}

// c09tMakePIDs builds the bare PIDs of the pool the way the repository's own
// tree tests do (address + path + a not-started actor system, whose NoSender is nil).
func c09tMakePIDs() []*PID {
	if c09tSys == nil {
		sys, err := NewActorSystem("vfC09tree", WithLogger(log.DiscardLogger))
		if err != nil {
			panic(err)
		}
		c09tSys = sys
	}
	addrs := make([]*address.Address, len(c09tPool))
	pids := make([]*PID, len(c09tPool))
	for i, s := range c09tPool {
		if i == c09tNil {
			continue
		}
		if s.parent >= 0 {
			addrs[i] = address.NewWithParent(s.name, "vfC09tree", "host", 4000, addrs[s.parent])
		} else {
			addrs[i] = address.New(s.name, "vfC09tree", "host", 4000)
		}
		pids[i] = &PID{address: addrs[i], path: newPath(addrs[i]), actorSystem: c09tSys}
	}
	return pids
}

func c09tExec(x *vfkit.X, c c09tCase) {
	pids := c09tMakePIDs()
	ids, nms := c09tIdentities()
	if ids[1] != ids[9] || ids[5] == ids[6] || ids[5] == ids[7] || nms[5] != nms[6] || nms[5] != nms[7] {
		panic("pool identities are not what the check assumes: " + strings.Join(ids, " "))
	}
	m := c09tNewModel(ids, nms)
	tr := newTree()
	bigDelete, crossWatchDelete, attachSeen, errSeen := false, false, false, false

	for step, op := range c.Ops {
		// classification before the step (needs the pre-state)
		if op.Kind == c09tDeleteNode && op.A != c09tNil {
			if nd, ok := m.reg[ids[op.A]]; ok {
				sub := m.subtreeIDs(nd)
				if len(sub) >= 2 {
					bigDelete = true
				}
				in := map[string]bool{nd.id: true}
				for _, s := range sub {
					in[s] = true
				}
				for id := range in {
					if n2, ok := m.reg[id]; ok {
						for w := range n2.watchers {
							if !in[w] && (n2.parent == nil || w != n2.parent.id) {
								crossWatchDelete = true
							}
						}
						for w := range n2.watchees {
							if !in[w] {
								crossWatchDelete = true
							}
						}
					}
				}
			}
		}
		if op.Kind == c09tAddOrAttach && op.B != c09tNil {
			if _, ok := m.reg[ids[op.B]]; ok {
				attachSeen = true
			}
		}

		wantErr := m.apply(op)
		var err error
		func() {
			defer func() {
				if p := recover(); p != nil {
					x.Failf("tree-op-panics", "step %d %v panicked: %v\nops: %v", step, op, p, c.Ops[:step+1])
				}
			}()
			switch op.Kind {
			case c09tAddRoot:
				err = tr.addRootNode(pids[op.A])
			case c09tAddNode:
				err = tr.addNode(pids[op.A], pids[op.B])
			case c09tAddOrAttach:
				err = tr.addOrAttachNode(pids[op.A], pids[op.B])
			case c09tAddWatcher:
				tr.addWatcher(pids[op.A], pids[op.B])
			case c09tRemoveWatcher:
				tr.removeWatcher(pids[op.A], pids[op.B])
			case c09tRemoveDescendant:
				a, b := "", ""
				if op.A != c09tNil {
					a = ids[op.A]
				}
				if op.B != c09tNil {
					b = ids[op.B]
				}
				tr.removeDescendant(a, b)
			case c09tDeleteNode:
				tr.deleteNode(pids[op.A])
			case c09tReset:
				tr.reset()
			}
		}()
		if wantErr {
			errSeen = true
		}
		if wantErr != (err != nil) {
			x.Failf("tree-op-result", "step %d %v: error=%v, model expects error=%v\nops: %v", step, op, err, wantErr, c.Ops[:step+1])
		}
		c09tCompare(x, tr, m, pids, ids, nms, step, c.Ops)
	}

	if bigDelete {
		x.Class("delete_subtree_of_3plus")
	}
	if crossWatchDelete {
		x.Class("delete_with_watch_links_crossing_subtree")
	}
	if attachSeen {
		x.Class("attach_registered_pid")
	}
	if errSeen {
		x.Class("rejected_operation")
	}
	if bigDelete || crossWatchDelete {
		x.NonTrivial()
	}
}

func c09tCompare(x *vfkit.X, tr *tree, m *c09tModel, pids []*PID, ids, nms []string, step int, ops []c09tOp) {
	fail := func(fp, format string, args ...any) {
		x.Failf(fp, "after step %d %v: %s\nops: %v", step, ops[step], fmt.Sprintf(format, args...), ops[:step+1])
	}
	// count == registered nodes
	if got := tr.count(); got != int64(len(m.reg)) {
		fail("tree-count-mismatch", "count()=%d, registered nodes in the model=%d", got, len(m.reg))
	}
	// nodes(): exactly the registered ids, each holding the registered *PID
	var gotIDs []string
	for _, n := range tr.nodes() {
		gotIDs = append(gotIDs, n.id)
		mn, ok := m.reg[n.id]
		if !ok {
			continue
		}
		if n.value() != pids[mn.pidIdx] {
			fail("tree-node-holds-wrong-pid", "node %s holds a *PID that is not the one registered", n.id)
		}
	}
	sort.Strings(gotIDs)
	var wantIDs []string
	for id := range m.reg {
		wantIDs = append(wantIDs, id)
	}
	sort.Strings(wantIDs)
	if !c09tSame(gotIDs, wantIDs) {
		fail("tree-registered-set-mismatch", "nodes()=%v, model=%v", gotIDs, wantIDs)
	}
	// root
	rp, rok := tr.root()
	if (m.root != nil) != rok || (rok && rp != pids[m.root.pidIdx]) {
		fail("tree-root-mismatch", "root()=(%v,%v), model root registered=%v", rp != nil, rok, m.root != nil)
	}
	seenName := map[string]bool{}
	for i, p := range pids {
		if p == nil {
			continue
		}
		id := ids[i]
		mn, reg := m.reg[id]
		n, ok := tr.node(id)
		if ok != reg {
			fail("tree-node-lookup-mismatch", "node(%s) found=%v, model registered=%v", id, ok, reg)
		}
		if ok && n.value() == nil {
			fail("tree-node-lookup-stale", "node(%s) returns a node whose PID was cleared", id)
		}
		// nodeByName
		if !seenName[nms[i]] {
			seenName[nms[i]] = true
			hs := m.holders(nms[i])
			bn, bok := tr.nodeByName(nms[i])
			if bok {
				v := bn.value()
				if v == nil {
					fail("tree-name-index-stale", "nodeByName(%q) returns a node that was deleted", nms[i])
				}
				cur, isReg := m.reg[bn.id]
				if !isReg || cur.name != nms[i] || pids[cur.pidIdx] != v {
					fail("tree-name-index-stale", "nodeByName(%q) returns %s which is not a registered node of that name", nms[i], bn.id)
				}
			}
			if !m.dirty[nms[i]] {
				if len(hs) == 1 && (!bok || bn.id != hs[0].id) {
					fail("tree-name-index-misses-node", "nodeByName(%q) found=%v, the only registered node of that name is %s", nms[i], bok, hs[0].id)
				}
				if len(hs) == 0 && bok {
					fail("tree-name-index-stale", "nodeByName(%q) finds a node, none is registered", nms[i])
				}
			}
		}
		if !reg {
			if tr.children(p) != nil || tr.descendants(p) != nil || tr.watchers(p) != nil || tr.watchees(p) != nil || tr.siblings(p) != nil {
				fail("tree-query-on-unregistered", "queries on unregistered %s return non-nil", id)
			}
			if pp, ok := tr.parent(p); ok || pp != nil {
				fail("tree-query-on-unregistered", "parent(%s) of an unregistered pid found", id)
			}
			continue
		}
		// parent: registered parent node object still live
		pp, pok := tr.parent(p)
		wantParent := mn.parent != nil && mn.parent.live
		if pok != wantParent || (pok && pp != pids[mn.parent.pidIdx]) {
			fail("tree-parent-mismatch", "parent(%s) found=%v, model parent live=%v", id, pok, wantParent)
		}
		// children
		var wantCh []string
		for cid, cn := range mn.children {
			if cn.live {
				wantCh = append(wantCh, cid)
			}
		}
		sort.Strings(wantCh)
		if got := c09tPidIDs(tr.children(p)); !c09tSame(got, wantCh) {
			fail("tree-children-mismatch", "children(%s)=%v, model=%v", id, got, wantCh)
		}
		if got, want := c09tPidIDs(tr.descendants(p)), m.subtreeIDs(mn); !c09tSame(got, want) {
			fail("tree-descendants-mismatch", "descendants(%s)=%v, model=%v", id, got, want)
		}
		// siblings: the other live children of the live parent
		if _, attached := func() (struct{}, bool) {
			if !wantParent {
				return struct{}{}, false
			}
			_, in := mn.parent.children[id]
			return struct{}{}, in
		}(); attached {
			var wantSib []string
			for cid, cn := range mn.parent.children {
				if cn.live && cid != id {
					wantSib = append(wantSib, cid)
				}
			}
			sort.Strings(wantSib)
			// a node detached by removeDescendant is not among its parent's children,
			// the others still are: siblings() lists the parent's children except itself
			if got := c09tPidIDs(tr.siblings(p)); !c09tSame(got, wantSib) {
				fail("tree-siblings-mismatch", "siblings(%s)=%v, model=%v", id, got, wantSib)
			}
		}
		// watch links (ID level) and their symmetry
		if got, want := c09tPidIDs(tr.watchers(p)), c09tKeys(mn.watchers); !c09tSame(got, want) {
			fail("tree-watchers-mismatch", "watchers(%s)=%v, model=%v", id, got, want)
		}
		if got, want := c09tPidIDs(tr.watchees(p)), c09tKeys(mn.watchees); !c09tSame(got, want) {
			fail("tree-watchees-mismatch", "watchees(%s)=%v, model=%v", id, got, want)
		}
	}
}

func TestVF_C09_tree(t *testing.T) {
	vfkit.Run(t, vfkit.Spec[c09tCase]{
		ID: "C09", Unit: "tree",
		Rule: "cases = sequences of 2..70 tree operations (addRootNode/addNode/addOrAttachNode/addWatcher/removeWatcher/removeDescendant/deleteNode/reset) over a pool of 10 bare PIDs (three share a Name under different parents, two share an ID) plus the nil PID, drawn against the running reference model so that most operations hit registered nodes, within the preconditions of the real callers; after every operation all queries of the tree are compared with the model; non-trivial = the sequence deletes a node that has >=2 registered descendants (subtree >= 3) or a subtree with watch links crossing its border; distinct = distinct operation sequences",
		Gen:  c09tGen, Exec: c09tExec,
	})
}

//go:build verif

package actor

import (
	"context"
	"errors"
	"fmt"
	"runtime"
	"runtime/debug"
	"sort"
	"strings"
	"sync"
	"sync/atomic"
	"testing"
	"time"

	"pgregory.net/rapid"

	gerrors "github.com/tochemey/goakt/v4/errors"
	"github.com/tochemey/goakt/v4/internal/vfkit"
	"github.com/tochemey/goakt/v4/internal/vfsched"
	"github.com/tochemey/goakt/v4/log"
	"github.com/tochemey/goakt/v4/supervisor"
)

// ---- C09 / unit "subtree": stopping an actor stops its whole subtree, children first
//
// One real ActorSystem per case. A generated forest (<= 10 actors, depth <= 3,
// <= 3 children per node) is spawned through Spawn / SpawnChild; then 1..3 actions
// run concurrently: a stop of a node through one of seven routes (system.Kill,
// parent.Stop(child), PID.Shutdown, PoisonPill, ctx.Shutdown() in the node's own
// handler, ctx.Stop(child) in the parent's handler, a panic under a Stop directive),
// system.Stop, SpawnChild under a node, PID.Restart of a node. Every actor logs
// PreStart / PostStop enter and exit with logical timestamps from one counter.

const (
	c09Kill        = iota // system.Kill(name)
	c09ParentStop         // parent.Stop(ctx, child) from an outside goroutine (top-level nodes: PID.Shutdown)
	c09Shutdown           // pid.Shutdown(ctx)
	c09PoisonPill         // Tell(pid, PoisonPill)
	c09SelfStop           // ctx.Shutdown() inside the node's own handler
	c09HandlerStop        // ctx.Stop(child) inside the parent's handler (top-level nodes: like c09SelfStop)
	c09PanicStop          // handler panics; supervisor directive = Stop
	c09SystemStop         // system.Stop
	c09SpawnChild         // target.SpawnChild(new name)
	c09Restart            // target.Restart(ctx)

	c09FpResolvable = "stopped-actor-resolvable-until-death-watch-removal"
	c09FpOrphan     = "child-spawned-during-parent-stop-survives"
	c09FpSkip       = "parent-stop-skips-child-being-stopped-concurrently"
	c09FpRestart    = "restart-not-serialised-with-stop"

	c09Cap = 15 * time.Second
)

var c09KindNames = []string{"Kill", "parent.Stop", "Shutdown", "PoisonPill", "ctx.Shutdown", "ctx.Stop(child)", "panic+StopDirective", "system.Stop", "SpawnChild", "Restart"}

type c09NodeSpec struct {
	Parent    int `json:"parent"` // -1: top-level
	PostThink int `json:"poststop_us"`
}

type c09Action struct {
	Kind   int `json:"kind"`
	Target int `json:"target"`
	Delay  int `json:"delay_us"`
	Think  int `json:"think_us"` // PreStart duration of the child a SpawnChild action creates
}

type c09Case struct {
	Nodes      []c09NodeSpec `json:"nodes"`
	Actions    []c09Action   `json:"actions"`
	NoiseSeed  uint64        `json:"noise_seed"`
	NoiseProb  float64       `json:"noise_prob"`
	NoiseSleep int           `json:"noise_sleep_us"`
}

// ---- generator -----------------------------------------------------------------------

func c09Depths(nodes []c09NodeSpec) []int {
	d := make([]int, len(nodes))
	for i, n := range nodes {
		if n.Parent >= 0 {
			d[i] = d[n.Parent] + 1
		} else {
			d[i] = 1
		}
	}
	return d
}

func c09Gen(t *rapid.T) c09Case {
	var c c09Case
	c.NoiseSeed = rapid.Uint64().Draw(t, "noise-seed")
	c.NoiseProb = rapid.SampledFrom([]float64{0, 0.01, 0.05, 0.05, 0.2}).Draw(t, "noise-prob")
	c.NoiseSleep = rapid.SampledFrom([]int{0, 50, 300}).Draw(t, "noise-sleep")
	n := rapid.OneOf(rapid.IntRange(1, 4), rapid.IntRange(3, 10), rapid.IntRange(6, 10)).Draw(t, "actors")
	kids := map[int]int{}
	for i := 0; i < n; i++ {
		spec := c09NodeSpec{Parent: -1, PostThink: rapid.SampledFrom([]int{0, 0, 50, 300}).Draw(t, "post-think")}
		if i > 0 {
			depths := c09Depths(c.Nodes)
			var cands []int
			for j := range c.Nodes {
				if depths[j] < 3 && kids[j] < 3 {
					cands = append(cands, j)
					if depths[j] == 2 {
						cands = append(cands, j) // deeper parents twice as likely
					}
				}
			}
			if len(cands) > 0 && rapid.IntRange(0, 5).Draw(t, "as-child") > 0 {
				spec.Parent = rapid.SampledFrom(cands).Draw(t, "parent")
				kids[spec.Parent]++
			}
		}
		c.Nodes = append(c.Nodes, spec)
	}
	// targets: nodes with many descendants are preferred
	size := make([]int, n)
	for i := n - 1; i >= 0; i-- {
		size[i]++
		if p := c.Nodes[i].Parent; p >= 0 {
			size[p] += size[i]
		}
	}
	var weighted []int
	for i := range c.Nodes {
		for k := 0; k < size[i]; k++ {
			weighted = append(weighted, i)
		}
	}
	na := rapid.SampledFrom([]int{1, 1, 2, 2, 2, 3}).Draw(t, "actions")
	for i := 0; i < na; i++ {
		a := c09Action{Target: rapid.SampledFrom(weighted).Draw(t, "target")}
		if i > 0 && rapid.IntRange(0, 2).Draw(t, "related") > 0 {
			// overlapping subtrees: the first target itself, its parent, or one of its children
			first := c.Actions[0].Target
			rel := []int{first}
			if p := c.Nodes[first].Parent; p >= 0 {
				rel = append(rel, p)
			}
			for j, nd := range c.Nodes {
				if nd.Parent == first {
					rel = append(rel, j)
				}
			}
			a.Target = rapid.SampledFrom(rel).Draw(t, "related-target")
		}
		a.Kind = rapid.SampledFrom([]int{
			c09Kill, c09Kill, c09ParentStop, c09ParentStop, c09Shutdown, c09Shutdown,
			c09PoisonPill, c09SelfStop, c09HandlerStop, c09PanicStop,
			c09SystemStop,
			c09SpawnChild, c09SpawnChild, c09SpawnChild,
			c09Restart, c09Restart,
		}).Draw(t, "kind")
		if i == 0 && a.Kind >= c09SpawnChild && na > 1 {
			a.Kind = rapid.SampledFrom([]int{c09Kill, c09ParentStop, c09Shutdown}).Draw(t, "first-is-stop")
		}
		a.Delay = rapid.SampledFrom([]int{0, 0, 0, 20, 100, 400}).Draw(t, "delay")
		if a.Kind == c09SpawnChild {
			a.Think = rapid.SampledFrom([]int{0, 50, 300, 1000}).Draw(t, "think")
		}
		c.Actions = append(c.Actions, a)
	}
	return c
}

// ---- instrumented actors ----------------------------------------------------------------

type c09Life struct {
	preOK     int64
	postEnter int64
	postExit  int64
}

type c09Node struct {
	idx       int // >= len(case nodes): created by a SpawnChild action
	name      string
	parent    *c09Node // nil: top-level
	pid       *PID
	postThink time.Duration
	preThink  time.Duration
	dynamic   bool
	byAction  int

	mu        sync.Mutex
	lives     []c09Life
	postStops atomic.Int64
}

func (n *c09Node) snapshot() []c09Life {
	n.mu.Lock()
	defer n.mu.Unlock()
	return append([]c09Life(nil), n.lives...)
}

func (n *c09Node) alive() bool {
	l := n.snapshot()
	return len(l) > 0 && l[len(l)-1].postEnter == 0
}

type c09Env struct {
	sys    *actorSystem
	clock  atomic.Int64
	dwBase int64 // messages the death watch had handled before the forest was built
}

func (e *c09Env) tick() int64 { return e.clock.Add(1) }

func c09Busy(d time.Duration) {
	if d <= 0 {
		return
	}
	if d >= 200*time.Microsecond {
		time.Sleep(d)
		return
	}
	end := time.Now().Add(d)
	for time.Now().Before(end) {
		runtime.Gosched()
	}
}

type c09Actor struct {
	env  *c09Env
	node *c09Node
}

type c09Cmd struct {
	kind    int // c09SelfStop, c09HandlerStop, c09PanicStop
	child   *PID
	started chan struct{} // closed when the handler begins
	done    chan struct{} // closed when the handler's stop call has returned
}

func (a *c09Actor) PreStart(*Context) error {
	c09Busy(a.node.preThink)
	a.node.mu.Lock()
	a.node.lives = append(a.node.lives, c09Life{preOK: a.env.tick()})
	a.node.mu.Unlock()
	return nil
}

func (a *c09Actor) PostStop(*Context) error {
	n := a.node
	n.mu.Lock()
	if k := len(n.lives); k > 0 && n.lives[k-1].postEnter == 0 {
		n.lives[k-1].postEnter = a.env.tick()
	}
	n.mu.Unlock()
	c09Busy(n.postThink)
	n.mu.Lock()
	if k := len(n.lives); k > 0 && n.lives[k-1].postExit == 0 {
		n.lives[k-1].postExit = a.env.tick()
	}
	n.mu.Unlock()
	n.postStops.Add(1)
	return nil
}

func (a *c09Actor) Receive(ctx *ReceiveContext) {
	cmd, ok := ctx.Message().(*c09Cmd)
	if !ok {
		return
	}
	close(cmd.started)
	switch cmd.kind {
	case c09SelfStop:
		ctx.Shutdown()
		ctx.Err(nil) // a failed stop (somebody else was faster) must not turn into a supervised failure of this actor
		close(cmd.done)
	case c09HandlerStop:
		ctx.Stop(cmd.child)
		ctx.Err(nil) // see above: ErrActorNotFound for a child that was stopped concurrently is expected
		close(cmd.done)
	case c09PanicStop:
		close(cmd.done)
		panic(errors.New("c09: generated failure"))
	}
}

// ---- execution -----------------------------------------------------------------------------

type c09Result struct {
	act      c09Action
	begin    int64
	end      int64
	err      error
	panicked any
	skipped  string   // the route could not be taken (target already gone ...)
	child    *c09Node // SpawnChild
	// sampled right after a synchronous stop returned nil
	stillRunning []string
	resolvable   []string
	noPostStop   []string
	samplePanic  string
}

func c09Stack() string {
	var keep []string
	lines := strings.Split(string(debug.Stack()), "\n")
	for i := 0; i+1 < len(lines); i++ {
		if strings.Contains(lines[i], "goakt/v4/actor.") && !strings.Contains(lines[i], "c09") {
			keep = append(keep, strings.TrimSpace(lines[i])+" @ "+strings.TrimSpace(lines[i+1]))
		}
	}
	if len(keep) > 8 {
		keep = keep[:8]
	}
	return strings.Join(keep, "\n")
}

// settle waits until the death watch has consumed every Terminated message. Every
// stop call has returned, so every Terminated is already in its mailbox. The death
// watch handles one PostStart plus one Terminated per stopped actor it watches, so
// the primary criterion is its processed-message count reaching its count before the
// case's first spawn + the number of PostStop runs, with its turn finished. (Its mailboxes cannot be read reliably from
// outside the consumer: IsEmpty is documented as consumer-only, and "idle" is also
// visible for an instant inside finishOrReclaim while a message is pending.) When a
// Terminated was never sent (an actor outside the tree, or the finding
// stop-before-death-watch-registration) the count is never reached: then idle +
// empty + an unchanged count for two seconds without interruption is accepted.
func (e *c09Env) settle(postStops func() int64) (ok, complete bool) {
	dw := e.sys.getDeathWatch()
	if dw == nil {
		return true, true
	}
	deadline := time.Now().Add(c09Cap)
	var stableSince time.Time
	last := -1
	for {
		n := dw.ProcessedCount()
		idle := dw.schedState.Load() == dispatchIdle
		if idle && int64(n) >= e.dwBase+postStops() {
			return true, true
		}
		if idle && n == last && dw.mailbox.IsEmpty() && dw.systemMailbox.IsEmpty() {
			if stableSince.IsZero() {
				stableSince = time.Now()
			} else if time.Since(stableSince) > 2*time.Second {
				return true, false
			}
		} else {
			stableSince = time.Time{}
		}
		last = n
		if time.Now().After(deadline) {
			return false, false
		}
		time.Sleep(200 * time.Microsecond)
	}
}

var c09StopSup = supervisor.NewSupervisor(supervisor.WithStrategy(supervisor.OneForOneStrategy), supervisor.WithAnyErrorDirective(supervisor.StopDirective))

func c09SubtreeOf(nodes []*c09Node, root *c09Node) []*c09Node {
	var out []*c09Node
	for _, n := range nodes {
		for p := n; p != nil; p = p.parent {
			if p == root {
				out = append(out, n)
				break
			}
		}
	}
	return out
}

func c09Exec(x *vfkit.X, c c09Case) {
	ctx := context.Background()
	sysI, err := NewActorSystem("vfC09", WithLogger(log.DiscardLogger))
	if err != nil {
		panic(err)
	}
	if err := sysI.Start(ctx); err != nil {
		panic(err)
	}
	sys := sysI.(*actorSystem)
	e := &c09Env{sys: sys}
	stopped := false
	defer func() {
		vfsched.SetNoise(0, 0, 0)
		if !stopped {
			_ = sys.Stop(context.Background())
		}
	}()
	if !c09AwaitGuardians(sys) {
		x.Class("inconclusive_guardians_not_started")
		return
	}
	e.dwBase = c09DeathWatchBase(sys)

	// build the forest
	var nodes []*c09Node
	for i, spec := range c.Nodes {
		n := &c09Node{idx: i, name: fmt.Sprintf("n%d", i), postThink: time.Duration(spec.PostThink) * time.Microsecond}
		act := &c09Actor{env: e, node: n}
		var pid *PID
		var err error
		if spec.Parent < 0 {
			pid, err = sys.Spawn(ctx, n.name, act, WithLongLived(), WithSupervisor(c09StopSup))
		} else {
			n.parent = nodes[spec.Parent]
			pid, err = n.parent.pid.SpawnChild(ctx, n.name, act, WithLongLived(), WithSupervisor(c09StopSup))
		}
		if err != nil {
			panic(fmt.Sprintf("building the forest: %v", err))
		}
		n.pid = pid
		nodes = append(nodes, n)
	}
	static := append([]*c09Node(nil), nodes...)
	var nodesMu sync.Mutex

	knownResolvable := x.Known(c09FpResolvable)
	hasRestart := false
	for _, a := range c.Actions {
		if a.Kind == c09Restart {
			hasRestart = true
		}
	}

	vfsched.SetNoise(c.NoiseSeed, c.NoiseProb, c.NoiseSleep)
	start := make(chan struct{})
	var wg sync.WaitGroup
	results := make([]*c09Result, len(c.Actions))
	var inconclusive atomic.Bool
	for i, a := range c.Actions {
		res := &c09Result{act: a}
		results[i] = res
		wg.Add(1)
		go func() {
			defer wg.Done()
			defer func() {
				if p := recover(); p != nil {
					res.panicked = fmt.Sprintf("%v\n%s", p, c09Stack())
					res.end = e.tick()
				}
			}()
			<-start
			c09Busy(time.Duration(a.Delay) * time.Microsecond)
			tgt := static[a.Target]
			kind := a.Kind
			if tgt.parent == nil {
				// routes through the parent do not exist for top-level actors
				if kind == c09ParentStop {
					kind = c09Shutdown
				}
				if kind == c09HandlerStop {
					kind = c09SelfStop
				}
			}
			// waitStopped: the target's PostStop count grew, or it is not running any
			// more (somebody else stopped it); the cap makes the case inconclusive
			waitStopped := func(before int64) {
				deadline := time.Now().Add(c09Cap)
				// PostStop ran and the stop has run to its end (doStop notifies the
				// watchers after PostStop and clears the state flags last)
				for tgt.postStops.Load() <= before || tgt.pid.isStateSet(stoppingState) || tgt.pid.isStateSet(runningState) {
					if time.Now().After(deadline) {
						inconclusive.Store(true)
						return
					}
					time.Sleep(50 * time.Microsecond)
				}
			}
			syncStop := false
			res.begin = e.tick()
			switch kind {
			case c09Kill:
				res.err = sys.Kill(ctx, tgt.name)
				syncStop = true
			case c09ParentStop:
				res.err = tgt.parent.pid.Stop(ctx, tgt.pid)
				syncStop = true
			case c09Shutdown:
				res.err = tgt.pid.Shutdown(ctx)
				syncStop = true
			case c09PoisonPill:
				before := tgt.postStops.Load()
				if err := Tell(ctx, tgt.pid, new(PoisonPill)); err != nil {
					res.skipped = "Tell failed: " + err.Error()
				} else {
					waitStopped(before)
				}
			case c09SelfStop:
				cmd := &c09Cmd{kind: c09SelfStop, started: make(chan struct{}), done: make(chan struct{})}
				before := tgt.postStops.Load()
				if err := Tell(ctx, tgt.pid, cmd); err != nil {
					res.skipped = "Tell failed: " + err.Error()
				} else {
					// the command may be dropped when somebody else stops the target first
					c09WaitEither(cmd, tgt, before, &inconclusive)
				}
			case c09HandlerStop:
				cmd := &c09Cmd{kind: c09HandlerStop, child: tgt.pid, started: make(chan struct{}), done: make(chan struct{})}
				before := tgt.parent.postStops.Load()
				if err := Tell(ctx, tgt.parent.pid, cmd); err != nil {
					res.skipped = "Tell failed: " + err.Error()
				} else {
					c09WaitEither(cmd, tgt.parent, before, &inconclusive)
				}
			case c09PanicStop:
				cmd := &c09Cmd{kind: c09PanicStop, started: make(chan struct{}), done: make(chan struct{})}
				before := tgt.postStops.Load()
				if err := Tell(ctx, tgt.pid, cmd); err != nil {
					res.skipped = "Tell failed: " + err.Error()
				} else {
					waitStopped(before)
				}
			case c09SystemStop:
				res.err = sys.Stop(ctx)
			case c09SpawnChild:
				nodesMu.Lock()
				ch := &c09Node{idx: len(nodes), name: fmt.Sprintf("r%d", i), parent: tgt, dynamic: true, byAction: i,
					preThink: time.Duration(a.Think) * time.Microsecond}
				nodes = append(nodes, ch)
				nodesMu.Unlock()
				res.child = ch
				pid, err := tgt.pid.SpawnChild(ctx, ch.name, &c09Actor{env: e, node: ch}, WithLongLived(), WithSupervisor(c09StopSup))
				res.err = err
				ch.pid = pid
			case c09Restart:
				res.err = tgt.pid.Restart(ctx)
			}
			res.end = e.tick()
			if syncStop && res.err == nil && !hasRestart {
				// "when the stop returns no actor of the subtree is running or resolvable by name"
				for _, d := range c09SubtreeOf(static, tgt) {
					if d.pid.IsRunning() {
						res.stillRunning = append(res.stillRunning, d.name)
					}
					lives := d.snapshot()
					if k := len(lives); k == 0 || lives[k-1].postExit == 0 {
						res.noPostStop = append(res.noPostStop, d.name)
					}
					func() {
						// ActorOf itself can hit the node while the death watch clears it
						// (nil PID dereference, listed under C11 as node-cleared-nil-pid:ActorOf)
						defer func() {
							if p := recover(); p != nil {
								res.samplePanic = fmt.Sprintf("%v\n%s", p, c09Stack())
							}
						}()
						if got, err := sys.ActorOf(ctx, d.name); err == nil && got != nil {
							res.resolvable = append(res.resolvable, d.name)
						}
					}()
				}
			}
		}()
	}
	close(start)
	done := make(chan struct{})
	go func() { wg.Wait(); close(done) }()
	select {
	case <-done:
	case <-time.After(2 * c09Cap):
		// An action that does not return within 30 s (seen: PID.Restart spinning in
		// restartSubtree's "wait until not running" loop after a concurrent restart
		// re-initialised the actor). Nothing can be judged; the goroutine and its
		// system are abandoned so that the run goes on.
		x.Class("inconclusive_action_did_not_return")
		for i, r := range results {
			if r.end == 0 {
				x.Note("action_did_not_return", fmt.Sprintf("%s(n%d) of %d actions", c09KindNames[c.Actions[i].Kind], c.Actions[i].Target, len(c.Actions)))
			}
		}
		vfsched.SetNoise(0, 0, 0)
		stopped = true
		go func() { _ = sys.Stop(context.Background()) }()
		return
	}
	for _, r := range results {
		if r.act.Kind == c09SystemStop && r.err == nil && r.panicked == nil {
			stopped = true
		}
	}
	settled, accounted := true, true
	if !stopped {
		settled, accounted = e.settle(func() int64 {
			nodesMu.Lock()
			defer nodesMu.Unlock()
			var total int64
			for _, n := range nodes {
				total += n.postStops.Load()
			}
			return total
		})
	}
	vfsched.SetNoise(0, 0, 0)
	if inconclusive.Load() {
		x.Class("inconclusive_async_stop_not_observed")
	}
	if !settled {
		x.Class("inconclusive_deathwatch_not_idle")
	}
	if settled && !accounted {
		// the death watch handled fewer Terminated messages than actors were stopped
		// and has been idle for 2 s: one was never sent or never delivered. Delivery
		// is not this property's business; the "no stopped actor stays registered"
		// clause is not judged for such a case.
		x.Class("inconclusive_terminated_not_accounted_for")
	}

	c09Judge(x, e, c, static, nodes, results, stopped, settled && !inconclusive.Load(), accounted, knownResolvable)
}

// c09AwaitGuardians waits until the root, system and user guardians have handled
// their PostStart. Their handlers use fields that are only set there, while a
// Terminated (control message, system mailbox) can overtake PostStart: a top-level
// actor that stops before the user guardian's first turn makes the guardian panic
// and the system shut itself down (defect outside this property, reported
// separately). The check keeps out of that window by construction.
func c09AwaitGuardians(sys *actorSystem) bool {
	deadline := time.Now().Add(15 * time.Second)
	for {
		ready := true
		for _, g := range []*PID{sys.getRootGuardian(), sys.getSystemGuardian(), sys.getUserGuardian()} {
			if g == nil || g.ProcessedCount() < 1 || g.schedState.Load() != dispatchIdle {
				ready = false
			}
		}
		if ready {
			return true
		}
		if time.Now().After(deadline) {
			return false
		}
		time.Sleep(50 * time.Microsecond)
	}
}

// c09WaitEither waits until the command's handler has finished its stop call, or
// until it is certain that the handler will never run: the receiver has been
// stopped by somebody else, no dispatcher turn of it is in flight any more, and the
// handler has not begun. (A receiver that is stopped from outside while its handler
// is still inside ctx.Stop(child) must be waited for: that stop is still running.)
func c09WaitEither(cmd *c09Cmd, n *c09Node, before int64, inconclusive *atomic.Bool) {
	deadline := time.Now().Add(c09Cap)
	for {
		select {
		case <-cmd.done:
			return
		default:
		}
		if n.postStops.Load() > before && !n.pid.isStateSet(stoppingState) && !n.pid.isStateSet(runningState) &&
			n.pid.schedState.Load() == dispatchIdle {
			select {
			case <-cmd.started:
				// the handler is running (or ran): keep waiting for it to finish
			default:
				return
			}
		}
		if time.Now().After(deadline) {
			inconclusive.Store(true)
			return
		}
		time.Sleep(50 * time.Microsecond)
	}
}

// ---- oracle ------------------------------------------------------------------------------------

func c09Judge(x *vfkit.X, e *c09Env, c c09Case, static, nodes []*c09Node, results []*c09Result, sysStopped, conclusive, accounted, knownResolvable bool) {
	depths := c09Depths(c.Nodes)
	for _, n := range nodes {
		par := "-"
		if n.parent != nil {
			par = n.parent.name
		}
		x.Logf("actor %s parent=%s lives=%v running=%v", n.name, par, n.snapshot(), n.pid != nil && n.pid.IsRunning())
	}
	for i, r := range results {
		x.Logf("action %d %s(%s) [%d..%d] err=%v skipped=%q panic=%v", i, c09KindNames[r.act.Kind], static[r.act.Target].name, r.begin, r.end, r.err, r.skipped, r.panicked)
	}
	desc := func() string {
		var b strings.Builder
		b.WriteString("forest:")
		for i, n := range c.Nodes {
			if n.Parent < 0 {
				fmt.Fprintf(&b, " n%d", i)
			} else {
				fmt.Fprintf(&b, " n%d<n%d", i, n.Parent)
			}
		}
		b.WriteString("; actions:")
		for _, a := range c.Actions {
			fmt.Fprintf(&b, " %s(n%d)", c09KindNames[a.Kind], a.Target)
		}
		return b.String()
	}
	c09Classify(x, c, static, results, depths)

	hasRestart := false
	for _, r := range results {
		if r.act.Kind == c09Restart {
			hasRestart = true
		}
		for _, msg := range []string{fmt.Sprint(r.panicked), r.samplePanic} {
			if msg == "" || msg == "<nil>" {
				continue
			}
			// A lookup that dereferences node.value() after the death watch cleared the
			// node: the defect is recorded under C11 (node-cleared-nil-pid:<function>);
			// while it is listed there the call simply counts as failed here.
			fp := "stop-spawn-or-restart-call-panics"
			if strings.Contains(msg, "nil pointer dereference") {
				for _, site := range []string{"findRunningChild", "Kill", "ActorOf", "ActorExists", "Child", "ReSpawn", "Stop"} {
					if strings.Contains(msg, ")."+site+"(") {
						fp = "node-cleared-nil-pid:" + site
						break
					}
				}
			}
			if !vfkit.Known("C11", fp) && !x.Known(fp) {
				x.Failf(fp, "%s(%s) panicked: %v\n%s", c09KindNames[r.act.Kind], static[r.act.Target].name, msg, desc())
			}
			x.Class("observed_nil_pid_panic_listed_under_C11")
			if r.panicked != nil && r.err == nil {
				r.err = errors.New("panicked (finding listed under C11)")
			}
		}
	}

	// accepted shapes of listed findings that were seen in this case; when nothing
	// else is wrong the case is reported under the first of them, which the kit
	// counts as an observation of the known finding
	var hits []string
	hit := func(fp, class string) {
		hits = append(hits, fp)
		x.Class(class)
	}
	// A Restart is not synchronised with stops, nor with the death watch that handles
	// the Terminated of its own embedded Shutdown (F-C09-4): whatever goes wrong in a
	// case that contains a Restart is attributed to that finding, and while it is
	// listed such a case is only checked up to the first symptom.
	racyRestart := hasRestart
	fail := func(fp, format string, args ...any) {
		if racyRestart {
			if !x.Known(c09FpRestart) {
				x.Failf(c09FpRestart, "["+fp+"] "+format, args...)
			}
			hit(c09FpRestart, "known_restart_racing_other_action")
			panic(c09Bail{})
		}
		x.Failf(fp, format, args...)
	}
	defer func() {
		if p := recover(); p != nil {
			if _, ok := p.(c09Bail); !ok {
				panic(p)
			}
		}
		if len(hits) > 0 {
			x.Failf(hits[0], "accepted shapes of listed findings seen in this case: %v\n%s", hits, desc())
		}
	}()

	// concurrentStopBelow: another action carries its own stop of d, or of an
	// ancestor of d strictly below top (shape of F-C09-3: freeChildren skips a
	// child that is not running because somebody else is already stopping it)
	concurrentStopBelow := func(self *c09Result, d, top *c09Node) bool {
		for _, r := range results {
			// (a Restart in the chain is F-C09-4's business: it stays racy even when
			// freeChildren waits for stopping children)
			if r == self || r.act.Kind >= c09SystemStop {
				continue
			}
			t := static[r.act.Target]
			for p := d; p != nil && p != top; p = p.parent {
				if p == t {
					return true
				}
			}
		}
		return false
	}
	// sysStopRace: same root cause, worst outcome. system.Stop overlaps an explicit
	// stop of an ancestor-or-self T of d: the user guardian's freeChildren skips T
	// (it is stopping), system.Stop finishes and resets the tree, and T's own
	// freeChildren no longer finds its node, so the whole subtree of T survives.
	sysStopRace := func(d *c09Node) bool {
		hasSys := false
		for _, r := range results {
			if r.act.Kind == c09SystemStop {
				hasSys = true
			}
		}
		if !hasSys {
			return false
		}
		for _, r := range results {
			if r.act.Kind >= c09SystemStop {
				continue
			}
			t := static[r.act.Target]
			for p := d; p != nil; p = p.parent {
				if p == t {
					return true
				}
			}
		}
		return false
	}
	knownSkip := x.Known(c09FpSkip)

	// (A) children first: when a parent's PostStop begins, every child that had
	// started before has completed its own PostStop
	knownOrphan := x.Known(c09FpOrphan)
	orphanTolerated := map[*c09Node]bool{}
	for _, ch := range nodes {
		if ch.parent == nil {
			continue
		}
		for _, pl := range ch.parent.snapshot() {
			if pl.postEnter == 0 {
				continue
			}
			for _, cl := range ch.snapshot() {
				if cl.preOK < pl.postEnter && (cl.postExit == 0 || cl.postExit > pl.postEnter) && cl.preOK > pl.preOK {
					if ch.dynamic && results[ch.byAction].err != nil && cl.postExit != 0 {
						// the spawn was refused and its actor torn down by the spawn itself:
						// it never became a descendant
						continue
					}
					if ch.dynamic {
						if !knownOrphan {
							x.Failf(c09FpOrphan, "child %s was spawned under %s (SpawnChild returned err=%v) and had finished PreStart (t=%d) when the parent's PostStop began (t=%d), but its own PostStop had not completed (exit t=%d, 0 = never): the stop of the parent missed it\n%s",
								ch.name, ch.parent.name, results[ch.byAction].err, cl.preOK, pl.postEnter, cl.postExit, desc())
						}
						orphanTolerated[ch] = true
						hit(c09FpOrphan, "known_orphan_child")
						continue
					}
					if concurrentStopBelow(nil, ch, ch.parent) || sysStopRace(ch) {
						if !knownSkip {
							fail(c09FpSkip, "%s entered PostStop at t=%d while its child %s, which another action was stopping at the same time, had not completed PostStop (enter t=%d, exit t=%d): freeChildren only shuts down children that are running or suspended and does not wait for one that is already stopping\n%s", ch.parent.name, pl.postEnter, ch.name, cl.postEnter, cl.postExit, desc())
						}
						hit(c09FpSkip, "known_parent_skips_stopping_child")
						continue
					}
					fail("parent-poststop-before-child-poststop", "%s entered PostStop at t=%d while its child %s (started t=%d) had not completed PostStop (exit t=%d, 0 = never)\n%s", ch.parent.name, pl.postEnter, ch.name, cl.preOK, cl.postExit, desc())
				}
			}
		}
	}

	// (C) what a synchronous stop that returned nil left behind
	for _, r := range results {
		tgt := static[r.act.Target]
		byName := func(name string) *c09Node {
			for _, n := range static {
				if n.name == name {
					return n
				}
			}
			return nil
		}
		for _, list := range [][]string{r.stillRunning, r.noPostStop} {
			for _, name := range list {
				what := "is still running"
				fp := "subtree-actor-running-after-stop-returned"
				if len(r.stillRunning) == 0 {
					what, fp = "has not completed PostStop", "subtree-actor-without-poststop-after-stop-returned"
				}
				if concurrentStopBelow(r, byName(name), tgt) || sysStopRace(byName(name)) {
					if !knownSkip {
						fail(c09FpSkip, "%s(%s) returned nil while %s, which another action was stopping at the same time, %s\n%s", c09KindNames[r.act.Kind], tgt.name, name, what, desc())
					}
					hit(c09FpSkip, "known_parent_skips_stopping_child")
					continue
				}
				fail(fp, "%s(%s) returned nil, %s %s\n%s", c09KindNames[r.act.Kind], tgt.name, name, what, desc())
			}
		}
		if len(r.resolvable) > 0 {
			if !knownResolvable {
				x.Failf(c09FpResolvable, "%s(%s) returned nil, yet ActorOf still returns (pid, nil) for the stopped %v: the tree node is only removed later by the death watch and ActorOf filters on IsStopping, which is false again once the stop has completed\n%s", c09KindNames[r.act.Kind], tgt.name, r.resolvable, desc())
			}
			hit(c09FpResolvable, "known_resolvable_after_stop")
		}
		// a lone synchronous stop of a running actor must succeed
		if len(results) == 1 && r.act.Kind <= c09Shutdown && r.err != nil {
			x.Failf("lone-stop-fails", "%s(%s) on a running actor returned %v\n%s", c09KindNames[r.act.Kind], tgt.name, r.err, desc())
		}
		if len(results) == 1 && r.act.Kind >= c09SystemStop && r.err != nil {
			if r.act.Kind == c09Restart {
				fail("lone-action-fails", "%s(%s) returned %v\n%s", c09KindNames[r.act.Kind], tgt.name, r.err, desc())
			}
			x.Failf("lone-action-fails", "%s(%s) returned %v\n%s", c09KindNames[r.act.Kind], tgt.name, r.err, desc())
		}
	}

	if !conclusive {
		return
	}

	// expected final liveness (only without restarts): a node is stopped iff it lies in
	// the subtree of a stop that took effect
	mustStop := map[*c09Node]bool{}
	for _, r := range results {
		if r.act.Kind > c09SystemStop || r.skipped != "" {
			continue
		}
		if r.act.Kind == c09SystemStop {
			if r.err == nil {
				for _, n := range nodes {
					mustStop[n] = true
				}
			}
			continue
		}
		if r.act.Kind <= c09Shutdown && r.err != nil {
			continue
		}
		for _, d := range c09SubtreeOf(nodes, static[r.act.Target]) {
			mustStop[d] = true
		}
	}

	// (B) final state. "live" is what the PID says (running or suspended); the
	// PostStop log decides whether a stopped actor was torn down.
	// started and not stopping: running or suspended. (A stopped PID can carry a stale
	// suspended flag when its supervision signal is handled after it was shut down.)
	isLive := func(n *c09Node) bool {
		return n.pid != nil && n.pid.isStateSet(runningState) && !n.pid.isStateSet(stoppingState)
	}
	liveUser := 0
	for _, n := range nodes {
		lives := n.snapshot()
		hookAlive := len(lives) > 0 && lives[len(lives)-1].postEnter == 0
		if n.pid == nil {
			if hookAlive && n.dynamic {
				// SpawnChild reported an error (or panicked) but left a started actor behind
				if !knownOrphan {
					x.Failf(c09FpOrphan, "SpawnChild(%s) under %s failed with %v but its actor completed PreStart and never ran PostStop\n%s", n.name, n.parent.name, results[n.byAction].err, desc())
				}
				hit(c09FpOrphan, "known_orphan_child")
			}
			continue
		}
		alive := isLive(n)
		if alive != hookAlive {
			x.Class("observed_prestart_poststop_pairing_differs_from_pid_state")
		}
		if orphanTolerated[n] {
			continue
		}
		if !hasRestart {
			if mustStop[n] && (alive || hookAlive) {
				if n.dynamic {
					if !knownOrphan {
						x.Failf(c09FpOrphan, "child %s spawned under %s while it was being stopped (SpawnChild err=%v) survives: running=%v, PostStop ran=%v, after every stop returned\n%s", n.name, n.parent.name, results[n.byAction].err, alive, !hookAlive, desc())
					}
					hit(c09FpOrphan, "known_orphan_child")
					continue
				}
				if sysStopRace(n) {
					if !knownSkip {
						fail(c09FpSkip, "%s survives system.Stop (running=%v, PostStop ran=%v): an explicit stop of it or of an ancestor was in progress, the user guardian's freeChildren skipped that actor, system.Stop returned and reset the tree, and the explicit stop no longer found any children\n%s", n.name, alive, !hookAlive, desc())
					}
					hit(c09FpSkip, "known_parent_skips_stopping_child")
					continue
				}
				fail("descendant-survives-stop", "%s lies in the subtree of a stop that returned, but running=%v and PostStop ran=%v\n%s", n.name, alive, !hookAlive, desc())
			}
			if !mustStop[n] && !alive && !n.dynamic {
				fail("unrelated-actor-stopped", "%s is outside every stopped subtree but is not running any more\n%s", n.name, desc())
			}
		}
		if alive {
			liveUser++
			if sysStopped {
				if sysStopRace(n) {
					if !knownSkip {
						fail(c09FpSkip, "%s is running although system.Stop returned nil: an explicit stop of it or of an ancestor was in progress and was skipped by the user guardian\n%s", n.name, desc())
					}
					hit(c09FpSkip, "known_parent_skips_stopping_child")
					continue
				}
				fail(("actor-running-after-system-stop"), "%s is running although system.Stop returned nil\n%s", n.name, desc())
			}
			node, ok := e.sys.tree().node(n.pid.ID())
			if !ok || node.value() != n.pid {
				if n.dynamic && c09RacedStop(results, n) {
					if !knownOrphan {
						x.Failf(c09FpOrphan, "child %s spawned under %s during its stop is running but not registered in the tree\n%s", n.name, n.parent.name, desc())
					}
					hit(c09FpOrphan, "known_orphan_child")
					continue
				}
				fail(("live-actor-not-registered"), "%s is running but the tree does not hold it\n%s", n.name, desc())
			}
			if n.parent != nil {
				if !isLive(n.parent) {
					if n.dynamic && c09RacedStop(results, n) {
						if !knownOrphan {
							x.Failf(c09FpOrphan, "child %s is running under the stopped parent %s\n%s", n.name, n.parent.name, desc())
						}
						hit(c09FpOrphan, "known_orphan_child")
						continue
					}
					fail(("live-actor-with-dead-parent"), "%s is running, its parent %s has stopped\n%s", n.name, n.parent.name, desc())
				}
				if pp, ok := e.sys.tree().parent(n.pid); !ok || pp != n.parent.pid {
					fail(("live-actor-parent-link-broken"), "tree.parent(%s) does not return %s\n%s", n.name, n.parent.name, desc())
				}
			}
			if got, err := e.sys.ActorOf(context.Background(), n.name); err != nil || got != n.pid {
				fail(("live-actor-not-resolvable"), "ActorOf(%s) = (%v, %v) for a running actor\n%s", n.name, got != nil, err, desc())
			}
		} else {
			if sysStopped || !accounted {
				continue
			}
			if node, ok := e.sys.tree().node(n.pid.ID()); ok && node.value() == n.pid {
				fail(("stopped-actor-registered-after-settle"), "%s has stopped and the death watch is idle, but the tree still holds it (%s)\n%s", n.name, c09StaleDiag(e.sys, n.pid), desc())
			}
			if got, err := e.sys.ActorOf(context.Background(), n.name); err == nil && got == n.pid {
				fail(("stopped-actor-resolvable-after-settle"), "ActorOf(%s) still returns the stopped PID after the death watch went idle\n%s", n.name, desc())
			}
		}
	}
	if sysStopped {
		return
	}
	// (D) Children() of every live actor = its live children
	for _, n := range nodes {
		if !isLive(n) || orphanTolerated[n] {
			continue
		}
		var want []string
		for _, ch := range nodes {
			if ch.parent == n && ch.pid != nil && ch.pid.IsRunning() && !orphanTolerated[ch] {
				if node, ok := e.sys.tree().node(ch.pid.ID()); ok && node.value() == ch.pid {
					want = append(want, ch.name)
				}
			}
		}
		var got []string
		for _, p := range n.pid.Children() {
			got = append(got, p.Name())
		}
		sort.Strings(want)
		sort.Strings(got)
		if strings.Join(want, ",") != strings.Join(got, ",") {
			fail("children-list-mismatch", "%s.Children()=%v, live registered children=%v\n%s", n.name, got, want, desc())
		}
	}
	if got := e.sys.NumActors(); got != uint64(liveUser) {
		x.Class("observed_actor_count_drift")
		x.Note("actor_count_drift", fmt.Sprintf("NumActors()=%d live=%d %s", got, liveUser, desc()))
	}
}

// c09DeathWatchBase waits for the death watch's own start-up turn and returns the
// number of messages it has handled so far.
func c09DeathWatchBase(sys *actorSystem) int64 {
	dw := sys.getDeathWatch()
	deadline := time.Now().Add(5 * time.Second)
	for (dw.ProcessedCount() < 1 || dw.schedState.Load() != dispatchIdle) && time.Now().Before(deadline) {
		time.Sleep(50 * time.Microsecond)
	}
	return int64(dw.ProcessedCount())
}

// c09StaleDiag describes who still watches a stale node and what the death watch did.
func c09StaleDiag(sys *actorSystem, pid *PID) string {
	dw := sys.getDeathWatch()
	var ws []string
	for _, w := range sys.tree().watchers(pid) {
		ws = append(ws, w.Name())
	}
	return fmt.Sprintf("watchers of the node=%v; death watch: running=%v suspended=%v processed=%d state=%d", ws, dw.IsRunning(), dw.IsSuspended(), dw.ProcessedCount(), dw.schedState.Load())
}

type c09Bail struct{}

// c09RacedStop: the SpawnChild that created n overlapped a stop (or restart) of
// one of its ancestors.
func c09RacedStop(results []*c09Result, n *c09Node) bool {
	sp := results[n.byAction]
	for _, r := range results {
		if r.act.Kind >= c09SpawnChild && r.act.Kind != c09Restart {
			continue
		}
		if r.begin < sp.end && sp.begin < r.end {
			return true
		}
	}
	return false
}

func c09Classify(x *vfkit.X, c c09Case, static []*c09Node, results []*c09Result, depths []int) {
	nontrivial := false
	related := func(a, b *c09Node) bool {
		for p := a; p != nil; p = p.parent {
			if p == b {
				return true
			}
		}
		for p := b; p != nil; p = p.parent {
			if p == a {
				return true
			}
		}
		return false
	}
	for i, r := range results {
		tgt := static[r.act.Target]
		x.Class("action_" + strings.ReplaceAll(c09KindNames[r.act.Kind], " ", "_"))
		if r.act.Kind <= c09SystemStop {
			sub := c09SubtreeOf(static, tgt)
			deep := false
			for _, d := range sub {
				if depths[d.idx]-depths[tgt.idx] >= 2 {
					deep = true
				}
			}
			if r.act.Kind == c09SystemStop {
				sub, deep = static, len(static) >= 3
			}
			if len(sub) >= 3 && deep {
				x.Class("stop_of_subtree_3plus_depth2")
				nontrivial = true
			}
		}
		if r.skipped != "" {
			x.Class("route_not_taken_target_gone")
		}
		if r.err != nil {
			x.Class("action_returned_error")
		}
		for _, o := range results[i+1:] {
			if !(r.begin < o.end && o.begin < r.end) {
				continue
			}
			ot := static[o.act.Target]
			rs, os := r.act.Kind <= c09SystemStop, o.act.Kind <= c09SystemStop
			rel := related(tgt, ot) || r.act.Kind == c09SystemStop || o.act.Kind == c09SystemStop
			switch {
			case rs && os && rel:
				x.Class("overlapping_stops_of_overlapping_subtrees")
				nontrivial = true
			case rel && (rs != os) && (r.act.Kind == c09SpawnChild || o.act.Kind == c09SpawnChild):
				x.Class("spawnchild_racing_stop")
				nontrivial = true
			case rel && (r.act.Kind == c09Restart || o.act.Kind == c09Restart):
				x.Class("restart_racing_other_action")
				nontrivial = true
			}
		}
	}
	if c.NoiseProb > 0 {
		x.Class("noise_on")
	}
	if nontrivial {
		x.NonTrivial()
	}
}

var _ = gerrors.ErrDead

func TestVF_C09_subtree(t *testing.T) {
	vfkit.Run(t, vfkit.Spec[c09Case]{
		ID: "C09", Unit: "subtree",
		Rule: "cases = one real ActorSystem with a generated forest (1..10 actors, depth <= 3, <= 3 children per node, unique names) and 1..3 concurrent actions: a stop of a node by Kill / parent.Stop / PID.Shutdown / PoisonPill / ctx.Shutdown in its handler / ctx.Stop(child) in the parent's handler / panic under a Stop directive, system.Stop, SpawnChild under a node, PID.Restart; E4 schedule noise, PostStop and PreStart think times; non-trivial = a stop whose subtree has >= 3 actors and depth >= 2, or two overlapping stops of overlapping subtrees, or a SpawnChild / Restart overlapping a related stop (measured call intervals); distinct = distinct generated programs",
		Gen:  c09Gen, Exec: c09Exec,
		ReplayReps: 30,
	})
}

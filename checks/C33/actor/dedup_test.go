//go:build verif

package actor

import (
	"context"
	"fmt"
	"sort"
	"strconv"
	"strings"
	"sync/atomic"
	"testing"
	"time"

	"pgregory.net/rapid"

	"github.com/tochemey/goakt/v4/internal/address"
	"github.com/tochemey/goakt/v4/internal/cluster"
	"github.com/tochemey/goakt/v4/internal/internalpb"
	"github.com/tochemey/goakt/v4/internal/vfkit"
)

// ---------------------------------------------------------------------------
// C33 / sim: a departure is handled by the production leader code
// (handleClusterEvent -> handleNodeLeftEvent -> beginRelocation -> relocator ->
// relocation worker -> RelocateBatch over loopback -> recreate*FromWire) on the
// simulated cluster of sim_test.go. The departed node is virtual: its snapshot
// (or, for a crash, only its registry records) is what a real departed node leaves.
//
// Generated: departed state (actors: kind, role, singleton, registry record present /
// missing / already re-created elsewhere; grains: eager / lazy / disabled), survivor
// set (0..2 live peers, 0..2 members whose endpoint is dead), order of the leader's peer
// list, graceful vs crash, a history of duplicate NodeLeft notifications with the phase
// at which each is delivered (early, while the worker is parked in a registry call = in
// flight for certain, right after it is released, after the relocation settled),
// notification of the non-leader members, registry faults, a failing DeletePeerState.
// ---------------------------------------------------------------------------

type c33ActorSpec struct {
	KindB     bool   `json:"kind_b"`
	Role      string `json:"role"`
	Singleton bool   `json:"singleton"`
	Entry     int    `json:"entry"` // 0 record points at the departed node, 1 no record, 2 already re-created on a survivor
	Where     int    `json:"where"` // Entry==2: index into the member list
	Fault     int    `json:"fault"` // 0 none, 1 PutActor fails once, 2 PutActor always fails, 3 GetActor fails once
}

type c33GrainSpec struct {
	Eager    bool `json:"eager"`
	Disabled bool `json:"disabled"`
	Entry    int  `json:"entry"` // 0 departed, 1 none
	Fault    int  `json:"fault"` // 0 none, 1 RemoveGrain always fails
}

type c33Dup struct {
	Phase int `json:"phase"` // 0 early, 1 while parked (in flight), 2 right after release, 3 after settle
}

type c33Case struct {
	Peers      []int          `json:"peers"`       // live member peers (fixture nodes 1,2)
	GhostRoles []string       `json:"ghost_roles"` // one entry per dead member
	Order      []int          `json:"order"`       // permutation of the leader's peer list
	Crash      bool           `json:"crash"`       // no snapshot: the set is derived from the registry
	Actors     []c33ActorSpec `json:"actors"`
	Grains     []c33GrainSpec `json:"grains"`
	Gate       int            `json:"gate"` // 0 worker parked in Peers(), 1 parked in CountActorsByHost, 2 parked in its first GetActor, 3 no gate
	Dups       []c33Dup       `json:"dups"`
	PeerPhase  []int          `json:"peer_phase"` // phase at which live peer i receives its own NodeLeft
	PeersErr   int            `json:"peers_err"`  // the leader's Peers() fails this many times
	FailDelete bool           `json:"fail_delete"`
}

func c33Gen(t *rapid.T) c33Case {
	var c c33Case
	switch rapid.IntRange(0, 5).Draw(t, "peers") {
	case 0:
	case 1:
		c.Peers = []int{1}
	case 2:
		c.Peers = []int{2}
	case 3, 4:
		c.Peers = []int{1, 2}
	default:
		c.Peers = []int{2, 1}
	}
	ng := rapid.SampledFrom([]int{0, 0, 0, 1, 1, 2, 2}).Draw(t, "ghosts")
	for i := 0; i < ng; i++ {
		c.GhostRoles = append(c.GhostRoles, rapid.SampledFrom([]string{"", "r2", "r3"}).Draw(t, "ghost_role"))
	}
	c.Order = rapid.Permutation(c33Iota(len(c.Peers)+ng)).Draw(t, "order")
	c.Crash = rapid.IntRange(0, 4).Draw(t, "crash") == 0
	na := rapid.IntRange(0, 6).Draw(t, "actors")
	for i := 0; i < na; i++ {
		var a c33ActorSpec
		a.KindB = rapid.IntRange(0, 7).Draw(t, "kind_b") == 0
		a.Role = rapid.SampledFrom([]string{"", "", "", "", "r1", "r2", "r2", "r3"}).Draw(t, "role")
		a.Singleton = rapid.IntRange(0, 5).Draw(t, "singleton") == 0
		a.Entry = rapid.SampledFrom([]int{0, 0, 1, 1, 1, 2}).Draw(t, "entry")
		a.Where = rapid.IntRange(0, len(c.Peers)).Draw(t, "where")
		a.Fault = rapid.SampledFrom([]int{0, 0, 0, 0, 0, 0, 0, 0, 0, 0, 0, 0, 0, 0, 0, 0, 0, 0, 0, 0, 0, 0, 0, 0, 0, 1, 2, 3}).Draw(t, "fault")
		c.Actors = append(c.Actors, a)
	}
	ngr := rapid.IntRange(0, 4).Draw(t, "grains")
	for i := 0; i < ngr; i++ {
		var g c33GrainSpec
		g.Eager = rapid.Bool().Draw(t, "eager")
		g.Disabled = rapid.IntRange(0, 4).Draw(t, "disabled") == 0
		g.Entry = rapid.SampledFrom([]int{0, 0, 1}).Draw(t, "gentry")
		g.Fault = rapid.SampledFrom([]int{0, 0, 0, 0, 0, 0, 0, 0, 0, 0, 0, 0, 0, 0, 0, 1}).Draw(t, "gfault")
		c.Grains = append(c.Grains, g)
	}
	c.Gate = rapid.SampledFrom([]int{0, 0, 0, 1, 2, 3}).Draw(t, "gate")
	nd := rapid.SampledFrom([]int{0, 1, 1, 2, 2, 3, 5}).Draw(t, "dups")
	for i := 0; i < nd; i++ {
		c.Dups = append(c.Dups, c33Dup{Phase: rapid.SampledFrom([]int{0, 1, 1, 1, 2, 3}).Draw(t, "phase")})
	}
	for range c.Peers {
		c.PeerPhase = append(c.PeerPhase, rapid.IntRange(0, 3).Draw(t, "peer_phase"))
	}
	c.PeersErr = rapid.SampledFrom([]int{0, 0, 0, 0, 0, 0, 0, 0, 0, 1}).Draw(t, "peers_err")
	c.FailDelete = rapid.IntRange(0, 7).Draw(t, "fail_delete") == 0
	return c
}

func c33Iota(n int) []int {
	out := make([]int, n)
	for i := range out {
		out[i] = i
	}
	return out
}

var c33CaseSeq atomic.Int64

type c33Events struct {
	started []*RelocationStarted
	failed  []*RelocationFailed
}

func (f *c33Fixture) drain(addr string, into *c33Events) {
	for msg := range f.nodes[0].sub.Iterator() {
		switch ev := msg.Payload().(type) {
		case *RelocationStarted:
			if ev.Address() == addr {
				into.started = append(into.started, ev)
			}
		case *RelocationFailed:
			if ev.Address() == addr {
				into.failed = append(into.failed, ev)
			}
		}
	}
}

// waitQuiet waits until no relocation job is registered for addr and the registry has
// seen no operation for a while. Returns false when the cap is hit (inconclusive).
func (f *c33Fixture) waitQuiet(p *c33Plan, addr string, window time.Duration) bool {
	leader := f.nodes[0].sys
	deadline := time.Now().Add(40 * time.Second)
	last := p.ops.Load()
	stableSince := time.Now()
	for {
		_, busy := leader.relocationJob(addr)
		cur := p.ops.Load()
		if cur != last || busy {
			last = cur
			stableSince = time.Now()
		} else if time.Since(stableSince) >= window {
			return true
		}
		if time.Now().After(deadline) {
			return false
		}
		time.Sleep(2 * time.Millisecond)
	}
}

func c33Exec(t *testing.T) func(x *vfkit.X, c c33Case) {
	return func(x *vfkit.X, c c33Case) {
		f := c33GetFixture(t)
		if f.err != nil {
			x.Class("inconclusive_fixture")
			x.Logf("fixture: %v", f.err)
			return
		}
		ctx := context.Background()
		id := c33CaseSeq.Add(1)
		leader := f.nodes[0]
		depHost := "127.0.0.1"
		depRemoting := 20 + int(id%900) // privileged, closed: nobody ever dials the departed node
		depPeers := 21000 + int(id%20000)
		depNode := address.FormatHostPort(depHost, depRemoting)
		depAddr := depHost + ":" + strconv.Itoa(depPeers)

		members := append([]int{0}, c.Peers...)
		plan := &c33Plan{members: members, order: c.Order, faults: map[string]int{}, counts: map[string]int{}}
		for i, role := range c.GhostRoles {
			g := cluster.Peer{Host: "127.0.0.1", DiscoveryPort: 3 + 2*i, PeersPort: 4 + 2*i, RemotingPort: 1 + i, CreatedAt: int64(5000 + i)}
			if role != "" {
				g.Roles = []string{role}
			}
			plan.ghosts = append(plan.ghosts, g)
		}

		// ---- departed state ----
		type item struct {
			spec c33ActorSpec
			name string
			wire *internalpb.Actor
		}
		var items []item
		wireActors := map[string]*internalpb.Actor{}
		var cleanupNames []string
		for i, a := range c.Actors {
			name := fmt.Sprintf("c%d-a%d", id, i)
			cleanupNames = append(cleanupNames, name)
			wire, err := f.c33DonorWire(name, a.KindB, a.Role, a.Singleton, depHost, depRemoting)
			if err != nil {
				x.Class("inconclusive_donor")
				x.Logf("donor: %v", err)
				return
			}
			items = append(items, item{spec: a, name: name, wire: wire})
			wireActors[wire.GetAddress()] = wire
		}
		type gitem struct {
			spec c33GrainSpec
			id   string
			wire *internalpb.Grain
		}
		var gitems []gitem
		wireGrains := map[string]*internalpb.Grain{}
		for i, g := range c.Grains {
			var opts []GrainOption
			if g.Eager {
				opts = append(opts, WithGrainEagerRelocation())
			}
			if g.Disabled {
				opts = append(opts, WithGrainDisableRelocation())
			}
			ident := newGrainIdentity(new(c33Grain), fmt.Sprintf("c%d-g%d", id, i))
			wire, err := wireGrain(ident, newGrainConfig(opts...), depHost, depRemoting)
			if err != nil {
				x.Class("inconclusive_donor")
				return
			}
			gitems = append(gitems, gitem{spec: g, id: ident.String(), wire: wire})
			wireGrains[ident.String()] = wire
		}

		defer func() {
			// ---- cleanup: nothing of this case survives it ----
			f.reg.plan.Store(nil)
			for _, n := range f.nodes {
				for _, name := range cleanupNames {
					if node, ok := n.sys.actors.nodeByName(name); ok {
						if pid := node.value(); pid != nil {
							_ = pid.Shutdown(ctx)
						}
					}
				}
				for _, g := range gitems {
					if proc, ok := n.sys.grains.Get(g.id); ok && proc != nil {
						_ = proc.deactivate(ctx)
						n.sys.grains.Delete(g.id)
					}
				}
				n.store.purge(depAddr)
			}
			f.reg.mu.Lock()
			for _, name := range cleanupNames {
				delete(f.reg.actors, name)
			}
			for _, g := range gitems {
				delete(f.reg.grains, g.id)
			}
			f.reg.mu.Unlock()
			for _, name := range cleanupNames {
				c33Live.forget(name)
			}
			for _, g := range gitems {
				c33Live.forget("grain:" + g.id)
			}
			var sink c33Events
			f.drain(depAddr, &sink)
		}()

		// registry records and "already re-created elsewhere" instances (before the plan is
		// installed: these belong to the time before the departure)
		for _, it := range items {
			switch it.spec.Entry {
			case 0:
				f.reg.mu.Lock()
				f.reg.actors[it.name] = it.wire
				f.reg.mu.Unlock()
			case 2:
				host := f.nodes[members[it.spec.Where%len(members)]]
				var actor Actor = new(c33KindA)
				if it.spec.KindB {
					actor = new(c33KindB)
				}
				var err error
				if it.spec.Singleton {
					sopts := []ClusterSingletonOption{WithSingletonSpawnTimeout(5 * time.Second), WithSingletonSpawnWaitInterval(50 * time.Millisecond), WithSingletonSpawnRetries(2)}
					if it.spec.Role == "r1" || it.spec.Role == "r2" {
						sopts = append(sopts, WithSingletonRole(it.spec.Role))
					}
					// membership for this pre-step = all three fixture nodes (plan not installed yet)
					_, err = host.sys.SpawnSingleton(ctx, it.name, actor, sopts...)
				} else {
					opts := []SpawnOption{WithLongLived()}
					if it.spec.Role != "" {
						opts = append(opts, WithRole(it.spec.Role))
					}
					_, err = host.sys.Spawn(ctx, it.name, actor, opts...)
				}
				if err != nil {
					x.Class("inconclusive_prespawn")
					x.Logf("pre-spawn %s: %v", it.name, err)
					return
				}
			}
		}
		for _, g := range gitems {
			if g.spec.Entry == 0 {
				f.reg.mu.Lock()
				f.reg.grains[g.id] = g.wire
				f.reg.mu.Unlock()
			}
		}

		// faults
		for _, it := range items {
			for n := 0; n < 3; n++ {
				switch it.spec.Fault {
				case 1:
					plan.faults[fmt.Sprintf("%d/PutActor/%s", n, it.name)] = 1
				case 2:
					plan.faults[fmt.Sprintf("%d/PutActor/%s", n, it.name)] = 1 << 20
				case 3:
					plan.faults[fmt.Sprintf("%d/GetActor/%s", n, it.name)] = 1
				}
			}
		}
		for _, g := range gitems {
			if g.spec.Fault == 1 {
				for n := 0; n < 3; n++ {
					plan.faults[fmt.Sprintf("%d/RemoveGrain/%s", n, g.id)] = 1 << 20
				}
			}
		}
		plan.peerErr.Store(int32(c.PeersErr))

		// what the leader will be told about the departed node
		snapshot := &internalpb.PeerState{Host: depHost, PeersPort: int32(depPeers), RemotingPort: int32(depRemoting), Actors: wireActors, Grains: wireGrains}
		inSet := func(entry int) bool { return !c.Crash || entry == 0 } // a crash only leaves what the registry still lists
		setSize := 0
		for _, it := range items {
			if inSet(it.spec.Entry) {
				setSize++
			}
		}
		for _, g := range gitems {
			if inSet(g.spec.Entry) {
				setSize++
			}
		}
		expectRun := setSize > 0
		if !c.Crash {
			expectRun = len(items)+len(gitems) > 0
			for _, m := range members {
				_ = f.nodes[m].store.PersistPeerState(ctx, snapshot)
			}
		}
		if c.FailDelete {
			leader.store.mu.Lock()
			leader.store.failDelete[depAddr] = true
			leader.store.mu.Unlock()
		}
		// the departed node was a member: every survivor has its remoting port cached
		for _, m := range members {
			f.nodes[m].sys.peerRemotingPorts.Set(depAddr, depRemoting)
		}

		gated := c.Gate != 3 && expectRun
		if gated {
			g := &c33Gate{node: 0, reached: make(chan struct{}), release: make(chan struct{})}
			switch c.Gate {
			case 0:
				g.op = "Peers"
			case 1:
				g.op = "CountActorsByHost"
			case 2:
				g.op = "GetActor"
			}
			plan.gate = g
		}
		f.reg.plan.Store(plan)

		var evs c33Events
		f.drain(depAddr, &evs) // discard anything older
		evs = c33Events{}

		deliver := func(n *c33Node) {
			n.sys.handleClusterEvent(&cluster.Event{Type: cluster.NodeLeft, Payload: &cluster.NodeLeftEvent{Address: depAddr, Timestamp: time.Now()}})
		}
		uncertain, certain := 0, 0
		dup := func(phase int) {
			before, okB := leader.sys.relocationJob(depAddr)
			deliver(leader)
			after, okA := leader.sys.relocationJob(depAddr)
			if okB && okA && before == after {
				certain++
				x.Class(fmt.Sprintf("dup_in_flight_phase%d", phase))
			} else {
				uncertain++
				x.Class(fmt.Sprintf("dup_not_in_flight_phase%d", phase))
			}
			x.Logf("dup phase=%d job before=%v after=%v same=%v", phase, okB, okA, before == after)
		}
		phaseWork := func(phase int) {
			for i, ph := range c.PeerPhase {
				if ph == phase {
					deliver(f.nodes[c.Peers[i]])
				}
			}
			for _, d := range c.Dups {
				if d.Phase == phase {
					dup(phase)
				}
			}
		}

		// ---- the history ----
		deliver(leader) // the departure itself
		x.Logf("first NodeLeft delivered; crash=%v expectRun=%v", c.Crash, expectRun)
		phaseWork(0)
		parked := false
		if gated {
			g := plan.gate
			deadline := time.Now().Add(30 * time.Second)
		wait:
			for {
				select {
				case <-g.reached:
					parked = true
					break wait
				default:
				}
				f.drain(depAddr, &evs)
				if _, busy := leader.sys.relocationJob(depAddr); !busy && len(evs.started) > 0 && !c.Crash {
					break wait // the relocation ran to its end without touching the gated call
				}
				if c.Crash {
					// the crash path is asynchronous: done when it started and released the job, or never starts
					if _, busy := leader.sys.relocationJob(depAddr); !busy && len(evs.started) > 0 && plan.count(0, "Peers") > 0 {
						break wait
					}
				}
				if time.Now().After(deadline) {
					x.Class("inconclusive_gate_not_reached")
					close(g.release)
					f.waitQuiet(plan, depAddr, 200*time.Millisecond)
					return
				}
				time.Sleep(time.Millisecond)
			}
		}
		if parked {
			x.Class("worker_parked")
		}
		phaseWork(1)
		if gated {
			close(plan.gate.release)
		}
		phaseWork(2)
		if !f.waitQuiet(plan, depAddr, 150*time.Millisecond) {
			x.Class("inconclusive_settle_cap")
			return
		}
		phaseWork(3)
		if !f.waitQuiet(plan, depAddr, 150*time.Millisecond) {
			x.Class("inconclusive_settle_cap")
			return
		}
		if gated && plan.gate.timedOut.Load() {
			x.Class("inconclusive_gate_timeout")
			return
		}
		f.drain(depAddr, &evs)
		workers := plan.count(0, "Peers")

		// ---- oracle 1: once per departure ----
		x.Logf("events: started=%d failed=%d workers=%d certain=%d uncertain=%d", len(evs.started), len(evs.failed), workers, certain, uncertain)
		bound := 1 + uncertain
		suffix := ""
		if c.Crash {
			suffix = "-crash-path"
		}
		if len(evs.started) > bound {
			x.Failf("dup-nodeleft-second-relocation-started"+suffix, "departure of %s: %d RelocationStarted events although only %d notification(s) arrived outside an in-flight relocation (%d duplicates arrived while the job was registered before and after their delivery)", depAddr, len(evs.started), bound, certain)
		}
		if workers > bound {
			x.Failf("dup-nodeleft-second-worker"+suffix, "departure of %s: the leader's relocation worker ran %d times (Peers() calls) although only %d notification(s) arrived outside an in-flight relocation", depAddr, workers, bound)
		}
		if len(evs.failed) > bound {
			x.Failf("more-than-one-relocation-failed-event"+suffix, "departure of %s: %d RelocationFailed events for %d possible relocation run(s)", depAddr, len(evs.failed), bound)
		}
		if !expectRun && (len(evs.started) > 0 && !c.Crash) {
			x.Failf("relocation-of-empty-state", "departure of %s with an empty state published RelocationStarted", depAddr)
		}

		// ---- oracle 2: every item accounted for ----
		listedActors, listedGrains := map[string]bool{}, map[string]bool{}
		known := map[string]bool{}
		for _, it := range items {
			known[it.wire.GetAddress()] = true
		}
		for _, ev := range evs.failed {
			for _, a := range ev.Actors() {
				listedActors[a] = true
				if !known[a] {
					x.Failf("relocation-failed-lists-foreign-actor", "RelocationFailed of %s lists %q which is not an actor of the departed node", depAddr, a)
				}
			}
			for _, g := range ev.Grains() {
				listedGrains[g] = true
				if _, ok := wireGrains[g]; !ok {
					x.Failf("relocation-failed-lists-foreign-grain", "RelocationFailed of %s lists %q which is not a grain of the departed node", depAddr, g)
				}
			}
		}
		failures := 0
		for _, it := range items {
			inst := c33Live.get(it.name)
			desc := fmt.Sprintf("actor %s (kindB=%v role=%q singleton=%v entry=%d fault=%d) hosts=%v", it.name, it.spec.KindB, it.spec.Role, it.spec.Singleton, it.spec.Entry, it.spec.Fault, inst.Hosts)
			if inst.Max > 1 || inst.Live > 1 {
				x.Failf("relocated-actor-runs-twice", "%s: %d instances were alive at the same time (live now %d)", desc, inst.Max, inst.Live)
			}
			listed := listedActors[it.wire.GetAddress()]
			if listed {
				failures++
				x.Class("actor_listed_failed")
			}
			if !inSet(it.spec.Entry) {
				continue // a crash without a registry record: the cluster never knew this actor
			}
			if inst.Live != 1 && !listed {
				x.Failf("relocated-actor-missing-unreported", "%s: runs on %d nodes after the relocation settled and is in no RelocationFailed event (events: %d started, %d failed)", desc, inst.Live, len(evs.started), len(evs.failed))
			}
			if inst.Live == 1 && listed {
				x.Class("actor_listed_but_running")
			}
			if inst.Live == 1 && !listed {
				// a successful (re)spawn is resolvable by name (Spawn / SpawnSingleton contract), and an
				// actor that was already running elsewhere keeps its record
				f.reg.mu.Lock()
				rec, ok := f.reg.actors[it.name]
				f.reg.mu.Unlock()
				host := inst.Hosts[len(inst.Hosts)-1]
				if !ok {
					x.Failf("running-actor-registry-record-lost", "%s: runs on %s after the relocation settled but the cluster registry has no record of it", desc, host)
				}
				if addr, err := address.Parse(rec.GetAddress()); err != nil || addr.HostPort() != host {
					x.Failf("running-actor-registry-record-stale", "%s: runs on %s after the relocation settled but its registry record is %q", desc, host, rec.GetAddress())
				}
			}
		}
		for _, g := range gitems {
			inst := c33Live.get("grain:" + g.id)
			desc := fmt.Sprintf("grain %s (eager=%v disabled=%v entry=%d fault=%d) hosts=%v", g.id, g.spec.Eager, g.spec.Disabled, g.spec.Entry, g.spec.Fault, inst.Hosts)
			if inst.Max > 1 {
				x.Failf("relocated-grain-activated-twice", "%s: %d activations alive at the same time", desc, inst.Max)
			}
			listed := listedGrains[g.id]
			if listed {
				failures++
				x.Class("grain_listed_failed")
			}
			if g.spec.Disabled {
				if inst.Starts > 0 {
					x.Failf("disabled-grain-relocated", "%s: a grain that opted out of relocation was activated", desc)
				}
				continue
			}
			if !inSet(g.spec.Entry) {
				continue
			}
			if g.spec.Eager {
				if inst.Live != 1 && !listed {
					x.Failf("eager-grain-missing-unreported", "%s: active on %d nodes after the relocation settled and in no RelocationFailed event", desc, inst.Live)
				}
				continue
			}
			// lazy: the stale directory entry must be gone (or the grain listed)
			f.reg.mu.Lock()
			rec, ok := f.reg.grains[g.id]
			f.reg.mu.Unlock()
			if ok && address.FormatHostPort(rec.GetHost(), int(rec.GetPort())) == depNode && !listed {
				x.Failf("lazy-grain-entry-stale-unreported", "%s: its directory entry still points at the departed node %s and it is in no RelocationFailed event", desc, depNode)
			}
		}

		// ---- classes / non-triviality ----
		if c.Crash {
			x.Class("crash")
		} else {
			x.Class("graceful")
		}
		x.Class(fmt.Sprintf("live_peers_%d_ghosts_%d", len(c.Peers), len(c.GhostRoles)))
		if c.PeersErr > 0 {
			x.Class("peers_error_abort")
		}
		if c.FailDelete {
			x.Class("delete_peer_state_fails")
		}
		if len(evs.started) > 1 {
			x.Class("second_run_after_settle")
		}
		if !expectRun {
			x.Class("empty_state")
		}
		ghostShare := len(c.GhostRoles) > 0 && (len(items) > 0 || len(gitems) > 0)
		if certain > 0 || failures > 0 || (ghostShare && expectRun) {
			x.NonTrivial()
		}
		if certain > 0 {
			x.Class("nontrivial_dup_in_flight")
		}
		if failures > 0 {
			x.Class("nontrivial_failure_reported")
		}
	}
}

func TestVF_C33_sim(t *testing.T) {
	defer c33StopFixture()
	vfkit.Run(t, vfkit.Spec[c33Case]{
		ID: "C33", Unit: "sim",
		Rule: "cases = departed state (0..6 actors: kind registered everywhere / only on some nodes, role in {none,r1,r2,r3}, singleton, registry record points at the departed node / missing / actor already re-created on a survivor, registry fault none / transient / permanent; 0..4 grains eager / lazy / relocation disabled) x survivors (leader + 0..2 live peers + 0..2 members with a dead endpoint, leader's peer-list order) x graceful snapshot or crash (set derived from the registry) x history of 0..5 duplicate NodeLeft notifications each delivered early / while the worker is parked inside a registry call (in flight for certain: the same job pointer is registered before and after the delivery) / right after release / after the relocation settled, plus the peers' own notifications, a failing Peers() (abort path) and a failing DeletePeerState; executed by the production leader code on a simulated cluster of three real actor systems with real loopback remoting; non-trivial = at least one duplicate delivered while the relocation was in flight for certain, or a peer / item failure (dead member holding a share, item listed in RelocationFailed); distinct = distinct case values",
		Gen:  c33Gen, Exec: c33Exec(t),
		ReplayReps: 3,
	})
}

var _ = sort.Strings
var _ = strings.Contains

//go:build verif

package actor

import (
	"context"
	"fmt"
	"os"
	"sync"
	"testing"
	"time"

	natsserver "github.com/nats-io/nats-server/v2/server"
	"pgregory.net/rapid"

	"github.com/tochemey/goakt/v4/discovery"
	"github.com/tochemey/goakt/v4/discovery/nats"
	"github.com/tochemey/goakt/v4/eventstream"
	"github.com/tochemey/goakt/v4/internal/cluster"
	inet "github.com/tochemey/goakt/v4/internal/net"
	"github.com/tochemey/goakt/v4/internal/vfkit"
	"github.com/tochemey/goakt/v4/log"
	"github.com/tochemey/goakt/v4/remote"
)

// ---------------------------------------------------------------------------
// C33 / real: a real in-process 3-node cluster (NATS discovery + olric, the way the
// repository's own cluster tests start one). One NATS server per test process; nodes are
// started on demand so that every case begins with three members. A case spawns a
// generated set of actors on the victim, stops the victim gracefully, waits for the
// leader's RelocationStarted, injects duplicate NodeLeft notifications into the leader's
// handler and checks the same accounting oracle as the simulated unit.
// Start-up failures, missing NodeLeft events and caps are inconclusive, never violations.
// ---------------------------------------------------------------------------

type c33RealNode struct {
	sys      *actorSystem
	provider discovery.Provider
	sub      eventstream.Subscriber
	started  []*RelocationStarted
	failed   []*RelocationFailed
	left     int // NodeLeft notifications this node handled for the address (real ones and injected ones)
}

type c33RealCluster struct {
	mu    sync.Mutex
	srv   *natsserver.Server
	nodes []*c33RealNode
	err   error
}

var c33Debug = os.Getenv("VF_C33_DEBUG") != ""

var (
	c33RealOnce sync.Once
	c33Real     *c33RealCluster
)

func c33RealGet() *c33RealCluster {
	c33RealOnce.Do(func() {
		rc := &c33RealCluster{}
		c33Real = rc
		srv, err := natsserver.NewServer(&natsserver.Options{Host: "127.0.0.1", Port: -1, NoLog: true})
		if err != nil {
			rc.err = err
			return
		}
		go srv.Start()
		if !srv.ReadyForConnections(15 * time.Second) {
			rc.err = fmt.Errorf("nats server not ready")
			return
		}
		rc.srv = srv
	})
	return c33Real
}

func (rc *c33RealCluster) startNode() (*c33RealNode, error) {
	ports := inet.Get(3)
	provider := nats.NewDiscovery(&nats.Config{
		NatsServer: "nats://" + rc.srv.Addr().String(), NatsSubject: "vfc33", Host: "127.0.0.1", DiscoveryPort: ports[0],
	}, nats.WithLogger(log.DiscardLogger))
	cc := NewClusterConfig().
		WithKinds(new(c33KindA), new(c33KindB)).
		WithGrains(new(c33Grain)).
		WithPartitionCount(7).
		WithReplicaCount(1).
		WithPeersPort(ports[2]).
		WithMinimumPeersQuorum(1).
		WithDiscoveryPort(ports[0]).
		WithBootstrapTimeout(2 * time.Second).
		WithClusterStateSyncInterval(300 * time.Millisecond).
		WithClusterBalancerInterval(100 * time.Millisecond).
		WithDiscovery(provider)
	sys, err := NewActorSystem(c33SysName, WithLogger(log.DiscardLogger), WithShutdownTimeout(time.Minute), WithCluster(cc), WithRemote(remote.NewConfig("127.0.0.1", ports[1])))
	if err != nil {
		return nil, err
	}
	// NOTE: the cluster engine derives the context of its event-consuming loop from the
	// context handed to Start, so Start must get a context that is never cancelled
	// (a timeout context cancelled after start-up silently stops all membership events).
	done := make(chan error, 1)
	go func() { done <- sys.Start(context.Background()) }()
	select {
	case err := <-done:
		if err != nil {
			return nil, err
		}
	case <-time.After(120 * time.Second):
		return nil, fmt.Errorf("node start-up did not finish within 120 s")
	}
	sub, err := sys.Subscribe()
	if err != nil {
		_ = sys.Stop(context.Background())
		return nil, err
	}
	return &c33RealNode{sys: sys.(*actorSystem), provider: provider, sub: sub}, nil
}

// ensure makes the cluster have n live nodes and a settled membership view.
func (rc *c33RealCluster) ensure(n int) error {
	for len(rc.nodes) < n {
		node, err := rc.startNode()
		if err != nil {
			return err
		}
		rc.nodes = append(rc.nodes, node)
	}
	// every node sees n-1 peers and exactly one node is the leader
	deadline := time.Now().Add(30 * time.Second)
	for {
		ok := true
		leaders := 0
		for _, nd := range rc.nodes {
			peers, err := nd.sys.cluster.Peers(context.Background())
			if err != nil || len(peers) != len(rc.nodes)-1 {
				ok = false
			}
			if nd.sys.cluster.IsLeader(context.Background()) {
				leaders++
			}
		}
		if ok && leaders == 1 {
			return nil
		}
		if time.Now().After(deadline) {
			return fmt.Errorf("membership did not settle (leaders=%d)", leaders)
		}
		time.Sleep(50 * time.Millisecond)
	}
}

func (rc *c33RealCluster) leader() *c33RealNode {
	for _, nd := range rc.nodes {
		if nd.sys.cluster.IsLeader(context.Background()) {
			return nd
		}
	}
	return nil
}

func (rc *c33RealCluster) remove(nd *c33RealNode) {
	for i, n := range rc.nodes {
		if n == nd {
			rc.nodes = append(rc.nodes[:i], rc.nodes[i+1:]...)
			return
		}
	}
}

func (rc *c33RealCluster) stopAll() {
	for _, nd := range rc.nodes {
		ctx, cancel := context.WithTimeout(context.Background(), 60*time.Second)
		_ = nd.sys.Stop(ctx)
		cancel()
		_ = nd.provider.Close()
	}
	rc.nodes = nil
	if rc.srv != nil {
		rc.srv.Shutdown()
	}
}

func (nd *c33RealNode) drain(addr string) {
	for msg := range nd.sub.Iterator() {
		if c33Debug {
			fmt.Printf("DEBUG %s event %T %+v (want %s)\n", nd.sys.PeersAddress(), msg.Payload(), msg.Payload(), addr)
		}
		switch ev := msg.Payload().(type) {
		case *NodeLeft:
			if ev.Address() == addr {
				nd.left++
			}
		case *RelocationStarted:
			if ev.Address() == addr {
				nd.started = append(nd.started, ev)
			}
		case *RelocationFailed:
			if ev.Address() == addr {
				nd.failed = append(nd.failed, ev)
			}
		}
	}
}

type c33RealActor struct {
	KindB      bool `json:"kind_b"`
	NoRelocate bool `json:"no_relocate"`
	Singleton  bool `json:"singleton"`
	ViaRemote  bool `json:"via_remote"` // spawned on the victim from another node (RemoteSpawn) instead of locally
}

type c33RealCase struct {
	Victim     int            `json:"victim"` // 0 = the leader departs, 1/2 = first/second non-leader departs
	Actors     []c33RealActor `json:"actors"`
	Grains     []bool         `json:"grains"`        // eager flag per grain activated on the victim
	DupsEarly  int            `json:"dups_early"`    // duplicates injected as soon as RelocationStarted is seen
	DupsLate   int            `json:"dups_late"`     // duplicates injected after the relocation settled
	DupSpacing int            `json:"dup_spacing"`   // microseconds between early duplicates
	SlowStart  int            `json:"slow_start_ms"` // PreStart of the re-created actors takes this long (keeps the relocation in flight)
}

func c33RealGen(t *rapid.T) c33RealCase {
	var c c33RealCase
	c.Victim = rapid.SampledFrom([]int{0, 1, 1, 2, 2}).Draw(t, "victim")
	n := rapid.IntRange(1, 8).Draw(t, "actors")
	for i := 0; i < n; i++ {
		c.Actors = append(c.Actors, c33RealActor{
			KindB:      rapid.IntRange(0, 3).Draw(t, "kind_b") == 0,
			NoRelocate: rapid.IntRange(0, 5).Draw(t, "no_relocate") == 0,
			Singleton:  rapid.IntRange(0, 6).Draw(t, "singleton") == 0,
			ViaRemote:  rapid.IntRange(0, 3).Draw(t, "via_remote") == 0,
		})
	}
	ng := rapid.IntRange(0, 3).Draw(t, "grains")
	for i := 0; i < ng; i++ {
		c.Grains = append(c.Grains, rapid.Bool().Draw(t, "eager"))
	}
	c.DupsEarly = rapid.SampledFrom([]int{0, 1, 2, 2, 3, 4}).Draw(t, "dups_early")
	c.DupsLate = rapid.SampledFrom([]int{0, 0, 1, 2}).Draw(t, "dups_late")
	c.DupSpacing = rapid.SampledFrom([]int{0, 0, 50, 500, 5000}).Draw(t, "dup_spacing")
	c.SlowStart = rapid.SampledFrom([]int{0, 30, 100, 100, 300}).Draw(t, "slow_start")
	return c
}

func c33RealExec(x *vfkit.X, c c33RealCase) {
	rc := c33RealGet()
	if rc.err != nil {
		x.Class("inconclusive_nats")
		x.Logf("nats: %v", rc.err)
		return
	}
	rc.mu.Lock()
	defer rc.mu.Unlock()
	ctx := context.Background()
	if err := rc.ensure(3); err != nil {
		x.Class("inconclusive_cluster_start")
		x.Logf("cluster start: %v", err)
		return
	}
	id := c33CaseSeq.Add(1)
	leader := rc.leader()
	if leader == nil {
		x.Class("inconclusive_no_leader")
		return
	}
	var others []*c33RealNode
	for _, nd := range rc.nodes {
		if nd != leader {
			others = append(others, nd)
		}
	}
	victim := leader
	if c.Victim > 0 {
		victim = others[(c.Victim-1)%len(others)]
	}
	var survivors []*c33RealNode
	for _, nd := range rc.nodes {
		if nd != victim {
			survivors = append(survivors, nd)
		}
	}
	victimAddr := victim.sys.PeersAddress()
	victimHost := c33HostOf(victim.sys)
	for _, nd := range rc.nodes {
		nd.started, nd.failed, nd.left = nil, nil, 0
		nd.drain(victimAddr)
		nd.started, nd.failed, nd.left = nil, nil, 0
	}

	type placed struct {
		spec c33RealActor
		name string
		addr string
	}
	var items []placed
	var names []string
	defer func() {
		for _, nd := range rc.nodes {
			for _, name := range names {
				if node, ok := nd.sys.actors.nodeByName(name); ok {
					if pid := node.value(); pid != nil {
						_ = pid.Shutdown(ctx)
					}
				}
			}
		}
		for _, name := range names {
			c33Live.forget(name)
		}
	}()
	for i, a := range c.Actors {
		name := fmt.Sprintf("r%d-a%d", id, i)
		names = append(names, name)
		var actor Actor = new(c33KindA)
		if a.KindB {
			actor = new(c33KindB)
		}
		var err error
		switch {
		case a.Singleton:
			// a singleton lives on the leader: it is part of the departed state only when the leader departs
			_, err = survivors[0].sys.SpawnSingleton(ctx, name, actor, WithSingletonSpawnTimeout(10*time.Second), WithSingletonSpawnWaitInterval(100*time.Millisecond), WithSingletonSpawnRetries(5))
		case a.ViaRemote:
			opts := []SpawnOption{WithLongLived(), WithHostAndPort(victim.sys.Host(), victim.sys.Port())}
			if a.NoRelocate {
				opts = append(opts, WithRelocationDisabled())
			}
			_, err = survivors[0].sys.Spawn(ctx, name, actor, opts...)
		default:
			opts := []SpawnOption{WithLongLived()}
			if a.NoRelocate {
				opts = append(opts, WithRelocationDisabled())
			}
			_, err = victim.sys.Spawn(ctx, name, actor, opts...)
		}
		if err != nil {
			x.Class("inconclusive_spawn")
			x.Logf("spawn %s: %v", name, err)
			return
		}
		inst := c33Live.get(name)
		if inst.Live != 1 {
			x.Class("inconclusive_spawn")
			x.Logf("spawn %s: live=%d", name, inst.Live)
			return
		}
		items = append(items, placed{spec: a, name: name})
	}
	type gplaced struct {
		eager bool
		id    string
	}
	var gitems []gplaced
	for i, eager := range c.Grains {
		var opts []GrainOption
		if eager {
			opts = append(opts, WithGrainEagerRelocation())
		}
		ident, err := victim.sys.GrainIdentity(ctx, fmt.Sprintf("r%d-g%d", id, i), func(context.Context) (Grain, error) { return new(c33Grain), nil }, opts...)
		if err != nil {
			x.Class("inconclusive_grain")
			x.Logf("grain: %v", err)
			return
		}
		gitems = append(gitems, gplaced{eager: eager, id: ident.String()})
	}
	defer func() {
		for _, nd := range rc.nodes {
			for _, g := range gitems {
				if proc, ok := nd.sys.grains.Get(g.id); ok && proc != nil {
					_ = proc.deactivate(ctx)
				}
			}
		}
		for _, g := range gitems {
			c33Live.forget("grain:" + g.id)
		}
	}()
	onVictim := func(name string) bool {
		inst := c33Live.get(name)
		return len(inst.Hosts) > 0 && inst.Hosts[len(inst.Hosts)-1] == victimHost
	}
	expect := 0
	for _, it := range items {
		if onVictim(it.name) && !it.spec.NoRelocate {
			expect++
		}
	}
	for _, g := range gitems {
		if onVictim("grain:" + g.id) {
			expect++
		}
	}

	// ---- the departure ----
	c33SlowStart.Store(int64(c.SlowStart) * int64(time.Millisecond))
	defer c33SlowStart.Store(0)
	sctx, cancel := context.WithTimeout(ctx, 90*time.Second)
	err := victim.sys.Stop(sctx)
	cancel()
	_ = victim.provider.Close()
	rc.remove(victim)
	if err != nil {
		x.Class("inconclusive_victim_stop")
		x.Logf("victim stop: %v", err)
		return
	}
	for _, it := range items {
		if onVictim(it.name) && c33Live.get(it.name).Live != 0 {
			x.Class("inconclusive_victim_stop")
			return
		}
	}
	if expect == 0 {
		x.Class("nothing_to_relocate")
	}

	// wait for the (new) leader to announce the relocation
	var head *c33RealNode
	deadline := time.Now().Add(60 * time.Second)
	for head == nil && expect > 0 {
		for _, nd := range survivors {
			nd.drain(victimAddr)
			if len(nd.started) > 0 {
				head = nd
			}
		}
		if head == nil {
			if time.Now().After(deadline) {
				x.Class("inconclusive_no_relocation_started")
				return
			}
			time.Sleep(time.Millisecond)
		}
	}
	if head == nil {
		// nothing to relocate: give the NodeLeft a moment, then only check "no double instance"
		time.Sleep(2 * time.Second)
		head = rc.leader()
		if head == nil {
			x.Class("inconclusive_no_leader")
			return
		}
	}
	certain, uncertain := 0, 0
	dup := func(label string) {
		before, okB := head.sys.relocationJob(victimAddr)
		head.sys.handleClusterEvent(&cluster.Event{Type: cluster.NodeLeft, Payload: &cluster.NodeLeftEvent{Address: victimAddr, Timestamp: time.Now()}})
		after, okA := head.sys.relocationJob(victimAddr)
		if okB && okA && before == after {
			certain++
			x.Class("dup_in_flight_" + label)
		} else {
			uncertain++
			x.Class("dup_not_in_flight_" + label)
		}
	}
	for i := 0; i < c.DupsEarly; i++ {
		dup("early")
		if c.DupSpacing > 0 {
			time.Sleep(time.Duration(c.DupSpacing) * time.Microsecond)
		}
	}
	settle := func() bool {
		deadline := time.Now().Add(60 * time.Second)
		quietSince := time.Now()
		for {
			if _, busy := head.sys.relocationJob(victimAddr); busy {
				quietSince = time.Now()
			} else if time.Since(quietSince) > 400*time.Millisecond {
				return true
			}
			if time.Now().After(deadline) {
				return false
			}
			time.Sleep(5 * time.Millisecond)
		}
	}
	if !settle() {
		x.Class("inconclusive_settle_cap")
		return
	}
	for i := 0; i < c.DupsLate; i++ {
		dup("late")
	}
	if !settle() {
		x.Class("inconclusive_settle_cap")
		return
	}
	var started []*RelocationStarted
	var failed []*RelocationFailed
	for _, nd := range survivors {
		nd.drain(victimAddr)
		started = append(started, nd.started...)
		failed = append(failed, nd.failed...)
	}
	x.Logf("victim=%s leaderDeparted=%v expect=%d started=%d failed=%d certain=%d uncertain=%d", victimAddr, victim == leader, expect, len(started), len(failed), certain, uncertain)

	// every notification the head handled is on its event stream (handleClusterEvent publishes
	// NodeLeft before acting on it): the real one(s) from the cluster engine and the injected ones.
	// Those that did not arrive while the same job was registered may each start a relocation.
	notifications := head.left
	bestEffort := 0
	for _, ev := range started {
		if ev.BestEffort() {
			bestEffort++
		}
	}
	x.Logf("head handled %d NodeLeft notifications for %s (%d injected); %d of the RelocationStarted events are best-effort (registry-derived)", notifications, victimAddr, c.DupsEarly+c.DupsLate, bestEffort)
	if real := notifications - c.DupsEarly - c.DupsLate; real > 1 {
		x.Class("cluster_engine_delivered_nodeleft_more_than_once")
	}
	bound := notifications - certain
	if bound < 1+uncertain {
		bound = 1 + uncertain
	}
	if len(started) > bound {
		x.Failf("dup-nodeleft-second-relocation-started", "real cluster, departure of %s: %d RelocationStarted events (%d best-effort) although only %d of the %d notifications the leader handled arrived outside an in-flight relocation (%d duplicates were delivered while the same job was registered before and after)", victimAddr, len(started), bestEffort, bound, notifications, certain)
	}
	if len(failed) > bound {
		x.Failf("more-than-one-relocation-failed-event", "real cluster, departure of %s: %d RelocationFailed events for at most %d relocation run(s)", victimAddr, len(failed), bound)
	}
	listedActors, listedGrains := map[string]bool{}, map[string]bool{}
	for _, ev := range failed {
		for _, a := range ev.Actors() {
			listedActors[a] = true
		}
		for _, g := range ev.Grains() {
			listedGrains[g] = true
		}
	}
	isListed := func(name string) bool {
		for a := range listedActors {
			if len(a) > len(name) && a[len(a)-len(name)-1:] == "/"+name {
				return true
			}
		}
		return false
	}
	reported := 0
	for _, it := range items {
		inst := c33Live.get(it.name)
		desc := fmt.Sprintf("actor %s (kindB=%v relocatable=%v singleton=%v remoteSpawned=%v) hosts=%v", it.name, it.spec.KindB, !it.spec.NoRelocate, it.spec.Singleton, it.spec.ViaRemote, inst.Hosts)
		if inst.Max > 1 || inst.Live > 1 {
			x.Failf("relocated-actor-runs-twice", "real cluster: %s: %d instances alive at the same time (live now %d)", desc, inst.Max, inst.Live)
		}
		if it.spec.NoRelocate || !(len(inst.Hosts) > 0 && inst.Hosts[0] == victimHost) {
			continue
		}
		listed := isListed(it.name)
		if listed {
			reported++
		}
		if inst.Live != 1 && !listed {
			x.Failf("relocated-actor-missing-unreported", "real cluster: %s: runs on %d nodes after the relocation of %s settled and is in no RelocationFailed event (%d started, %d failed events)", desc, inst.Live, victimAddr, len(started), len(failed))
		}
	}
	for _, g := range gitems {
		inst := c33Live.get("grain:" + g.id)
		if inst.Max > 1 {
			x.Failf("relocated-grain-activated-twice", "real cluster: grain %s eager=%v: %d activations alive at the same time, hosts=%v", g.id, g.eager, inst.Max, inst.Hosts)
		}
		if !g.eager || !(len(inst.Hosts) > 0 && inst.Hosts[0] == victimHost) {
			continue
		}
		if inst.Live != 1 && !listedGrains[g.id] {
			x.Failf("eager-grain-missing-unreported", "real cluster: eager grain %s: active on %d nodes after the relocation of %s settled and in no RelocationFailed event, hosts=%v", g.id, inst.Live, victimAddr, inst.Hosts)
		}
	}
	if victim == leader {
		x.Class("leader_departed")
	} else {
		x.Class("follower_departed")
	}
	if reported > 0 {
		x.Class("failure_reported")
	}
	if certain > 0 {
		x.Class("nontrivial_dup_in_flight")
		x.NonTrivial()
	}
	if expect > 0 {
		x.Class("relocation_ran")
	}
}

func TestVF_C33_real(t *testing.T) {
	defer func() {
		if c33Real != nil {
			c33Real.stopAll()
		}
	}()
	vfkit.Run(t, vfkit.Spec[c33RealCase]{
		ID: "C33", Unit: "real",
		Rule: "cases = which member departs (leader / first or second follower) x 1..8 actors spawned on it (kind, relocatable or not, cluster singleton, spawned locally or through RemoteSpawn) x 0..3 grains (eager / lazy) x PreStart of the re-created actors taking 0..300 ms x 0..4 duplicate NodeLeft notifications injected into the current leader's handler as soon as its RelocationStarted is observed (spacing 0..5 ms) x 0..2 after the relocation settled; real 3-node in-process NATS/olric cluster, the departed member is stopped gracefully and replaced before the next case; non-trivial = at least one duplicate was delivered while the same relocation job was registered before and after the delivery; distinct = distinct case values",
		Gen:  c33RealGen, Exec: c33RealExec,
		ReplayReps: 2,
	})
}

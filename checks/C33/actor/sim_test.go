//go:build verif

package actor

import (
	"context"
	"errors"
	"fmt"
	"sort"
	"strconv"
	"strings"
	"sync"
	"sync/atomic"
	"testing"
	"time"

	"google.golang.org/protobuf/proto"

	"github.com/tochemey/goakt/v4/discovery"
	"github.com/tochemey/goakt/v4/eventstream"
	"github.com/tochemey/goakt/v4/internal/address"
	"github.com/tochemey/goakt/v4/internal/cluster"
	"github.com/tochemey/goakt/v4/internal/internalpb"
	inet "github.com/tochemey/goakt/v4/internal/net"
	"github.com/tochemey/goakt/v4/log"
	"github.com/tochemey/goakt/v4/remote"
)

// ---------------------------------------------------------------------------
// C33 harness, part 1: a simulated cluster.
//
// Several REAL actor systems with REAL remoting on loopback share one in-memory,
// linearizable registry that implements cluster.Cluster (one view per node). The
// view is injected in-package into a started, remoting-enabled system exactly as
// DESIGN.md E5 describes (x.cluster, x.clusterStore, x.clusterNode,
// x.clusterEnabled), then the two cluster-only system actors (singleton manager,
// relocator) are spawned with the production functions. Everything the relocation
// code does afterwards (handleNodeLeftEvent, beginRelocation, relocator, worker,
// RelocateBatch RPC, recreateActorFromWire, SpawnSingleton, ...) is production code.
//
// Every registry operation first passes through a per-case plan: a gate (park the
// caller until the test releases it: this is how "a relocation is in flight" is made
// a deterministic fact instead of a timing guess), a fault list (fail the next k
// calls of an operation on a key) and counters.
// ---------------------------------------------------------------------------

const c33SysName = "vfc33"

var errC33Injected = errors.New("vf: injected registry fault")

// ---- live-instance table (process global: all nodes share the test process) ----

type c33Inst struct {
	Live   int
	Max    int
	Starts int
	Hosts  []string
}

type c33Table struct {
	mu     sync.Mutex
	m      map[string]*c33Inst
	ignore map[string]bool // host:port of the donor system
}

var c33Live = &c33Table{m: map[string]*c33Inst{}, ignore: map[string]bool{}}

func (t *c33Table) start(name, host string) {
	t.mu.Lock()
	defer t.mu.Unlock()
	if t.ignore[host] {
		return
	}
	in := t.m[name]
	if in == nil {
		in = &c33Inst{}
		t.m[name] = in
	}
	in.Live++
	in.Starts++
	if in.Live > in.Max {
		in.Max = in.Live
	}
	in.Hosts = append(in.Hosts, host)
}

func (t *c33Table) stop(name, host string) {
	t.mu.Lock()
	defer t.mu.Unlock()
	if t.ignore[host] {
		return
	}
	if in := t.m[name]; in != nil {
		in.Live--
	}
}

func (t *c33Table) get(name string) c33Inst {
	t.mu.Lock()
	defer t.mu.Unlock()
	if in := t.m[name]; in != nil {
		cp := *in
		cp.Hosts = append([]string(nil), in.Hosts...)
		return cp
	}
	return c33Inst{}
}

func (t *c33Table) forget(name string) {
	t.mu.Lock()
	delete(t.m, name)
	t.mu.Unlock()
}

func c33HostOf(sys ActorSystem) string { return sys.Host() + ":" + strconv.Itoa(sys.Port()) }

// two actor kinds: A is registered on every node, B only on some (an unregistered kind
// is the natural "this item cannot be re-created there" failure)
type c33KindA struct{}

// c33SlowStart makes PreStart of the test actors take that many nanoseconds (used by the
// real-cluster unit to keep a relocation in flight long enough for duplicates to land in it)
var c33SlowStart atomic.Int64

func (*c33KindA) PreStart(ctx *Context) error {
	c33Live.start(ctx.ActorName(), c33HostOf(ctx.ActorSystem()))
	if d := c33SlowStart.Load(); d > 0 {
		time.Sleep(time.Duration(d))
	}
	return nil
}
func (*c33KindA) Receive(*ReceiveContext) {}
func (*c33KindA) PostStop(ctx *Context) error {
	c33Live.stop(ctx.ActorName(), c33HostOf(ctx.ActorSystem()))
	return nil
}

type c33KindB struct{}

func (*c33KindB) PreStart(ctx *Context) error {
	c33Live.start(ctx.ActorName(), c33HostOf(ctx.ActorSystem()))
	if d := c33SlowStart.Load(); d > 0 {
		time.Sleep(time.Duration(d))
	}
	return nil
}
func (*c33KindB) Receive(*ReceiveContext) {}
func (*c33KindB) PostStop(ctx *Context) error {
	c33Live.stop(ctx.ActorName(), c33HostOf(ctx.ActorSystem()))
	return nil
}

type c33Grain struct{}

func (*c33Grain) OnActivate(_ context.Context, props *GrainProps) error {
	c33Live.start("grain:"+props.Identity().String(), c33HostOf(props.ActorSystem()))
	return nil
}
func (*c33Grain) OnDeactivate(_ context.Context, props *GrainProps) error {
	c33Live.stop("grain:"+props.Identity().String(), c33HostOf(props.ActorSystem()))
	return nil
}
func (*c33Grain) OnReceive(ctx *GrainContext) { ctx.NoErr() }

// ---- the per-case plan ----

type c33Gate struct {
	node     int
	op, key  string
	reached  chan struct{}
	release  chan struct{}
	once     sync.Once
	timedOut atomic.Bool
}

type c33Plan struct {
	members []int          // fixture node indices that are cluster members in this case (node 0 = leader, always a member)
	ghosts  []cluster.Peer // members whose remoting endpoint is dead (crashed right after the departed node)
	order   []int          // order of the leader's Peers(): indices into (members without 0) ++ ghosts
	gate    *c33Gate
	peerErr atomic.Int32 // leader's next k Peers() calls fail
	mu      sync.Mutex
	faults  map[string]int // "node/op/key" -> remaining failures
	counts  map[string]int // "node/op" -> calls
	ops     atomic.Int64   // all registry operations (quiescence detection)
}

func (p *c33Plan) count(node int, op string) int {
	p.mu.Lock()
	defer p.mu.Unlock()
	return p.counts[strconv.Itoa(node)+"/"+op]
}

// ---- the shared registry ----

type c33Reg struct {
	mu     sync.Mutex
	actors map[string]*internalpb.Actor
	grains map[string]*internalpb.Grain
	kv     map[string][]byte
	rr     map[string]int
	nodes  []*c33View
	plan   atomic.Pointer[c33Plan]
}

type c33View struct {
	reg    *c33Reg
	idx    int
	self   cluster.Peer
	events chan *cluster.Event
}

var _ cluster.Cluster = (*c33View)(nil)

// pre is called before every registry operation, outside the registry lock.
func (v *c33View) pre(op, key string) error {
	p := v.reg.plan.Load()
	if p == nil {
		return nil
	}
	p.ops.Add(1)
	p.mu.Lock()
	p.counts[strconv.Itoa(v.idx)+"/"+op]++
	fk := strconv.Itoa(v.idx) + "/" + op + "/" + key
	fail := false
	if n := p.faults[fk]; n > 0 {
		p.faults[fk] = n - 1
		fail = true
	}
	p.mu.Unlock()
	if g := p.gate; g != nil && g.node == v.idx && g.op == op && (g.key == "" || g.key == key) {
		first := false
		g.once.Do(func() { first = true })
		if first {
			close(g.reached)
			select {
			case <-g.release:
			case <-time.After(60 * time.Second):
				g.timedOut.Store(true)
			}
		}
	}
	if fail {
		return errC33Injected
	}
	return nil
}

func c33ActorKey(a *internalpb.Actor) (string, error) {
	addr, err := address.Parse(a.GetAddress())
	if err != nil {
		return "", err
	}
	return addr.Name(), nil
}

func (v *c33View) Start(context.Context) error { return nil }
func (v *c33View) Stop(context.Context) error  { return nil }

func (v *c33View) PutActor(_ context.Context, actor *internalpb.Actor) error {
	key, err := c33ActorKey(actor)
	if err != nil {
		return err
	}
	if err := v.pre("PutActor", key); err != nil {
		return err
	}
	v.reg.mu.Lock()
	v.reg.actors[key] = proto.Clone(actor).(*internalpb.Actor)
	v.reg.mu.Unlock()
	return nil
}

func (v *c33View) PutActorIfAbsent(_ context.Context, actor *internalpb.Actor) error {
	key, err := c33ActorKey(actor)
	if err != nil {
		return err
	}
	if err := v.pre("PutActorIfAbsent", key); err != nil {
		return err
	}
	v.reg.mu.Lock()
	defer v.reg.mu.Unlock()
	if _, ok := v.reg.actors[key]; ok {
		return cluster.ErrActorAlreadyExists
	}
	v.reg.actors[key] = proto.Clone(actor).(*internalpb.Actor)
	return nil
}

func (v *c33View) GetActor(_ context.Context, name string) (*internalpb.Actor, error) {
	if err := v.pre("GetActor", name); err != nil {
		return nil, err
	}
	v.reg.mu.Lock()
	defer v.reg.mu.Unlock()
	a, ok := v.reg.actors[name]
	if !ok {
		return nil, cluster.ErrActorNotFound
	}
	return proto.Clone(a).(*internalpb.Actor), nil
}

func (v *c33View) RemoveActor(_ context.Context, name string) error {
	if err := v.pre("RemoveActor", name); err != nil {
		return err
	}
	v.reg.mu.Lock()
	delete(v.reg.actors, name)
	v.reg.mu.Unlock()
	return nil
}

func (v *c33View) ActorExists(_ context.Context, name string) (bool, error) {
	if err := v.pre("ActorExists", name); err != nil {
		return false, err
	}
	v.reg.mu.Lock()
	_, ok := v.reg.actors[name]
	v.reg.mu.Unlock()
	return ok, nil
}

func (v *c33View) scanActors(keep func(*internalpb.Actor) bool) []*internalpb.Actor {
	v.reg.mu.Lock()
	defer v.reg.mu.Unlock()
	keys := make([]string, 0, len(v.reg.actors))
	for k := range v.reg.actors {
		keys = append(keys, k)
	}
	sort.Strings(keys)
	var out []*internalpb.Actor
	for _, k := range keys {
		if a := v.reg.actors[k]; keep == nil || keep(a) {
			out = append(out, proto.Clone(a).(*internalpb.Actor))
		}
	}
	return out
}

func (v *c33View) Actors(_ context.Context, _ time.Duration) ([]*internalpb.Actor, error) {
	if err := v.pre("Actors", ""); err != nil {
		return nil, err
	}
	return v.scanActors(nil), nil
}

func (v *c33View) ActorsByHost(_ context.Context, host string, port int, _ time.Duration) ([]*internalpb.Actor, error) {
	if err := v.pre("ActorsByHost", address.FormatHostPort(host, port)); err != nil {
		return nil, err
	}
	target := address.FormatHostPort(host, port)
	return v.scanActors(func(a *internalpb.Actor) bool {
		addr, err := address.Parse(a.GetAddress())
		return err == nil && addr.HostPort() == target
	}), nil
}

func (v *c33View) CountActorsByHost(_ context.Context, _ time.Duration) (map[string]int, error) {
	if err := v.pre("CountActorsByHost", ""); err != nil {
		return nil, err
	}
	out := map[string]int{}
	for _, a := range v.scanActors(nil) {
		if addr, err := address.Parse(a.GetAddress()); err == nil {
			out[addr.HostPort()]++
		}
	}
	return out, nil
}

func (v *c33View) PutGrain(_ context.Context, grain *internalpb.Grain) error {
	key := grain.GetGrainId().GetValue()
	if key == "" {
		return fmt.Errorf("grain id value is empty")
	}
	if err := v.pre("PutGrain", key); err != nil {
		return err
	}
	v.reg.mu.Lock()
	v.reg.grains[key] = proto.Clone(grain).(*internalpb.Grain)
	v.reg.mu.Unlock()
	return nil
}

func (v *c33View) GetGrain(_ context.Context, identity string) (*internalpb.Grain, error) {
	if err := v.pre("GetGrain", identity); err != nil {
		return nil, err
	}
	v.reg.mu.Lock()
	defer v.reg.mu.Unlock()
	g, ok := v.reg.grains[identity]
	if !ok {
		return nil, cluster.ErrGrainNotFound
	}
	return proto.Clone(g).(*internalpb.Grain), nil
}

func (v *c33View) RemoveGrain(_ context.Context, identity string) error {
	if err := v.pre("RemoveGrain", identity); err != nil {
		return err
	}
	v.reg.mu.Lock()
	delete(v.reg.grains, identity)
	v.reg.mu.Unlock()
	return nil
}

func (v *c33View) GrainExists(_ context.Context, identity string) (bool, error) {
	if err := v.pre("GrainExists", identity); err != nil {
		return false, err
	}
	v.reg.mu.Lock()
	_, ok := v.reg.grains[identity]
	v.reg.mu.Unlock()
	return ok, nil
}

func (v *c33View) scanGrains(keep func(*internalpb.Grain) bool) []*internalpb.Grain {
	v.reg.mu.Lock()
	defer v.reg.mu.Unlock()
	keys := make([]string, 0, len(v.reg.grains))
	for k := range v.reg.grains {
		keys = append(keys, k)
	}
	sort.Strings(keys)
	var out []*internalpb.Grain
	for _, k := range keys {
		if g := v.reg.grains[k]; keep == nil || keep(g) {
			out = append(out, proto.Clone(g).(*internalpb.Grain))
		}
	}
	return out
}

func (v *c33View) Grains(_ context.Context, _ time.Duration) ([]*internalpb.Grain, error) {
	if err := v.pre("Grains", ""); err != nil {
		return nil, err
	}
	return v.scanGrains(nil), nil
}

func (v *c33View) GrainsByHost(_ context.Context, host string, port int, _ time.Duration) ([]*internalpb.Grain, error) {
	if err := v.pre("GrainsByHost", address.FormatHostPort(host, port)); err != nil {
		return nil, err
	}
	return v.scanGrains(func(g *internalpb.Grain) bool { return g.GetHost() == host && int(g.GetPort()) == port }), nil
}

func (v *c33View) Events() <-chan *cluster.Event { return v.events }

// membership: the leader (fixture node 0) is the oldest member and the coordinator
func (v *c33View) membership() (members []*cluster.Peer, leaderPeers []*cluster.Peer) {
	p := v.reg.plan.Load()
	idxs := []int{}
	if p == nil {
		for i := range v.reg.nodes {
			idxs = append(idxs, i)
		}
	} else {
		idxs = append(idxs, p.members...)
	}
	for _, i := range idxs {
		peer := v.reg.nodes[i].self
		peer.Coordinator = i == 0
		members = append(members, &peer)
	}
	if p != nil {
		for i := range p.ghosts {
			g := p.ghosts[i]
			members = append(members, &g)
		}
		// the leader's peer list in the planned order
		pool := append([]*cluster.Peer(nil), members[1:]...)
		for _, o := range p.order {
			if o >= 0 && o < len(pool) {
				leaderPeers = append(leaderPeers, pool[o])
			}
		}
		if len(leaderPeers) != len(pool) {
			leaderPeers = pool
		}
	} else {
		leaderPeers = members[1:]
	}
	return members, leaderPeers
}

func (v *c33View) Peers(context.Context) ([]*cluster.Peer, error) {
	if err := v.pre("Peers", ""); err != nil {
		return nil, err
	}
	if p := v.reg.plan.Load(); p != nil && v.idx == 0 {
		for {
			n := p.peerErr.Load()
			if n <= 0 {
				break
			}
			if p.peerErr.CompareAndSwap(n, n-1) {
				return nil, errC33Injected
			}
		}
	}
	members, leaderPeers := v.membership()
	if v.idx == 0 {
		return leaderPeers, nil
	}
	var out []*cluster.Peer
	for _, m := range members {
		if m.PeerAddress() != v.self.PeerAddress() {
			out = append(out, m)
		}
	}
	return out, nil
}

func (v *c33View) Members(context.Context) ([]*cluster.Peer, error) {
	if err := v.pre("Members", ""); err != nil {
		return nil, err
	}
	members, _ := v.membership()
	return members, nil
}

func (v *c33View) IsLeader(context.Context) bool { return v.idx == 0 }
func (v *c33View) GetPartition(string) uint64    { return 0 }
func (v *c33View) IsRunning() bool               { return true }
func (v *c33View) LastRebalanceEvent() time.Time { return time.Time{} }
func (v *c33View) ClaimScheduleFire(context.Context, string, time.Duration) error {
	return nil
}
func (v *c33View) PutJobKey(_ context.Context, id string, md []byte) error {
	v.reg.mu.Lock()
	v.reg.kv[id] = append([]byte(nil), md...)
	v.reg.mu.Unlock()
	return nil
}
func (v *c33View) DeleteJobKey(_ context.Context, id string) error {
	v.reg.mu.Lock()
	delete(v.reg.kv, id)
	v.reg.mu.Unlock()
	return nil
}
func (v *c33View) JobKey(_ context.Context, id string) ([]byte, error) {
	v.reg.mu.Lock()
	defer v.reg.mu.Unlock()
	return v.reg.kv[id], nil
}
func (v *c33View) NextRoundRobinValue(_ context.Context, key string) (int, error) {
	v.reg.mu.Lock()
	defer v.reg.mu.Unlock()
	v.reg.rr[key]++
	return v.reg.rr[key], nil
}

// ---- peer-state store (decodes a fresh copy on every read, like the bolt store) ----

type c33Store struct {
	mu         sync.Mutex
	m          map[string]*internalpb.PeerState
	failDelete map[string]bool
}

func c33PeerKey(p *internalpb.PeerState) string {
	return p.GetHost() + ":" + strconv.Itoa(int(p.GetPeersPort()))
}

func (s *c33Store) PersistPeerState(_ context.Context, peer *internalpb.PeerState) error {
	s.mu.Lock()
	s.m[c33PeerKey(peer)] = proto.Clone(peer).(*internalpb.PeerState)
	s.mu.Unlock()
	return nil
}

func (s *c33Store) GetPeerState(_ context.Context, addr string) (*internalpb.PeerState, bool) {
	s.mu.Lock()
	defer s.mu.Unlock()
	p, ok := s.m[addr]
	if !ok {
		return nil, false
	}
	return proto.Clone(p).(*internalpb.PeerState), true
}

func (s *c33Store) DeletePeerState(_ context.Context, addr string) error {
	s.mu.Lock()
	defer s.mu.Unlock()
	if s.failDelete[addr] {
		return errC33Injected
	}
	delete(s.m, addr)
	return nil
}

func (s *c33Store) Close() error { return nil }

func (s *c33Store) purge(addr string) {
	s.mu.Lock()
	delete(s.m, addr)
	delete(s.failDelete, addr)
	s.mu.Unlock()
}

// ---- fixture: three simulated-cluster nodes and a plain donor system ----

type c33Node struct {
	sys   *actorSystem
	view  *c33View
	store *c33Store
	roles []string
	sub   eventstream.Subscriber
	hasB  bool
}

type c33Fixture struct {
	reg   *c33Reg
	nodes []*c33Node
	donor *actorSystem
	err   error
}

var (
	c33FixOnce sync.Once
	c33Fix     *c33Fixture
)

// node 0 = leader (role r1, kinds A+B), node 1 (role r2, kind A only), node 2 (no role, kinds A+B)
var c33NodeRoles = [][]string{{"r1"}, {"r2"}, nil}
var c33NodeHasB = []bool{true, false, true}

func c33StartPlain(name string) (*actorSystem, []int, error) {
	ports := inet.Get(3)
	sys, err := NewActorSystem(name, WithLogger(log.DiscardLogger), WithRemote(remote.NewConfig("127.0.0.1", ports[0])))
	if err != nil {
		return nil, nil, err
	}
	ctx, cancel := context.WithTimeout(context.Background(), 60*time.Second)
	defer cancel()
	if err := sys.Start(ctx); err != nil {
		return nil, nil, err
	}
	return sys.(*actorSystem), ports, nil
}

func c33GetFixture(t *testing.T) *c33Fixture {
	c33FixOnce.Do(func() {
		f := &c33Fixture{reg: &c33Reg{actors: map[string]*internalpb.Actor{}, grains: map[string]*internalpb.Grain{}, kv: map[string][]byte{}, rr: map[string]int{}}}
		c33Fix = f
		ctx := context.Background()
		for i := 0; i < 3; i++ {
			sys, ports, err := c33StartPlain(c33SysName)
			if err != nil {
				f.err = fmt.Errorf("node %d: %w", i, err)
				return
			}
			view := &c33View{reg: f.reg, idx: i, events: make(chan *cluster.Event, 16),
				self: cluster.Peer{Host: "127.0.0.1", DiscoveryPort: ports[1], PeersPort: ports[2], RemotingPort: ports[0], Roles: c33NodeRoles[i], CreatedAt: int64(1000 + i)}}
			store := &c33Store{m: map[string]*internalpb.PeerState{}, failDelete: map[string]bool{}}
			sys.locker.Lock()
			sys.cluster = view
			sys.clusterStore = store
			sys.clusterNode = &discovery.Node{Name: c33SysName, Host: "127.0.0.1", DiscoveryPort: ports[1], PeersPort: ports[2], RemotingPort: ports[0], Roles: c33NodeRoles[i]}
			sys.locker.Unlock()
			sys.clusterEnabled.Store(true)
			if err := sys.spawnSingletonManager(ctx); err != nil {
				f.err = fmt.Errorf("node %d singleton manager: %w", i, err)
				return
			}
			if err := sys.spawnRelocator(ctx); err != nil {
				f.err = fmt.Errorf("node %d relocator: %w", i, err)
				return
			}
			_ = sys.Register(ctx, new(c33KindA))
			if c33NodeHasB[i] {
				_ = sys.Register(ctx, new(c33KindB))
			}
			_ = sys.RegisterGrainKind(ctx, new(c33Grain))
			sub, err := sys.Subscribe()
			if err != nil {
				f.err = fmt.Errorf("node %d subscribe: %w", i, err)
				return
			}
			f.reg.nodes = append(f.reg.nodes, view)
			f.nodes = append(f.nodes, &c33Node{sys: sys, view: view, store: store, roles: c33NodeRoles[i], sub: sub, hasB: c33NodeHasB[i]})
		}
		donor, _, err := c33StartPlain(c33SysName)
		if err != nil {
			f.err = fmt.Errorf("donor: %w", err)
			return
		}
		f.donor = donor
		c33Live.mu.Lock()
		c33Live.ignore[c33HostOf(donor)] = true
		c33Live.mu.Unlock()
		// give the relocators time to process PostStart (they read r.pid afterwards)
		deadline := time.Now().Add(10 * time.Second)
		for _, n := range f.nodes {
			for n.sys.getRelocator() == nil || !n.sys.getRelocator().IsRunning() {
				if time.Now().After(deadline) {
					f.err = errors.New("relocator did not start")
					return
				}
				time.Sleep(5 * time.Millisecond)
			}
		}
		time.Sleep(50 * time.Millisecond)
	})
	return c33Fix
}

func c33StopFixture() {
	f := c33Fix
	if f == nil {
		return
	}
	f.reg.plan.Store(nil)
	for _, n := range f.nodes {
		if n == nil || n.sys == nil {
			continue
		}
		// stop as a plain system: the simulated registry has nothing to leave
		n.sys.clusterEnabled.Store(false)
		ctx, cancel := context.WithTimeout(context.Background(), 30*time.Second)
		_ = n.sys.Stop(ctx)
		cancel()
	}
	if f.donor != nil {
		ctx, cancel := context.WithTimeout(context.Background(), 30*time.Second)
		_ = f.donor.Stop(ctx)
		cancel()
	}
}

// c33DonorWire spawns the actor on the donor system with the production spawn path,
// takes the production wire record (pid.toSerialize) and re-homes it on the departed node.
func (f *c33Fixture) c33DonorWire(name string, kindB bool, role string, singleton bool, depHost string, depPort int) (*internalpb.Actor, error) {
	ctx := context.Background()
	var actor Actor = new(c33KindA)
	if kindB {
		actor = new(c33KindB)
	}
	opts := []SpawnOption{WithLongLived()}
	if role != "" {
		opts = append(opts, WithRole(role))
	}
	if singleton {
		opts = append(opts, withSingleton(&singletonSpec{SpawnTimeout: 5 * time.Second, WaitInterval: 100 * time.Millisecond, MaxRetries: 2}), WithSupervisor(defaultSingletonSupervisor()))
	}
	pid, err := f.donor.Spawn(ctx, name, actor, opts...)
	if err != nil {
		return nil, err
	}
	wire, err := pid.toSerialize()
	_ = pid.Shutdown(ctx)
	if err != nil {
		return nil, err
	}
	donorHP := f.donor.Host() + ":" + strconv.Itoa(f.donor.Port())
	wire.Address = strings.Replace(wire.GetAddress(), donorHP, depHost+":"+strconv.Itoa(depPort), 1)
	if _, err := address.Parse(wire.GetAddress()); err != nil {
		return nil, err
	}
	return wire, nil
}

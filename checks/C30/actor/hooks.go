//go:build verif

package actor

// Observation hooks for check C30. They are referenced by the one-line prologue
// the build overlay injects at the top of grainPID.deactivate (see check.json →
// rewrite.prologues); nothing else in the package reads them. They are set once,
// before any grain exists, by the C30 test fixture and never reset.
//
//	c30DeactEnter(pid) runs when deactivate is entered,
//	c30DeactExit(pid)  runs (deferred, last) when deactivate has returned,
//
// which gives the harness an exact "no deactivation in progress" signal for
// its settle phase instead of a sleep.
var (
	c30DeactEnter func(pid *grainPID)
	c30DeactExit  func(pid *grainPID)
)

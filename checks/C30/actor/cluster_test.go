//go:build verif

package actor

import (
	"context"
	"errors"
	"fmt"
	"runtime"
	"sort"
	"strings"
	"sync"
	"sync/atomic"
	"testing"
	"time"

	"github.com/flowchartsman/retry"
	"google.golang.org/protobuf/proto"
	"pgregory.net/rapid"

	"github.com/tochemey/goakt/v4/discovery"
	"github.com/tochemey/goakt/v4/internal/cluster"
	"github.com/tochemey/goakt/v4/internal/internalpb"
	inet "github.com/tochemey/goakt/v4/internal/net"
	"github.com/tochemey/goakt/v4/internal/vfkit"
	"github.com/tochemey/goakt/v4/log"
	"github.com/tochemey/goakt/v4/remote"
	"github.com/tochemey/goakt/v4/test/data/testpb"
)

// ---------------------------------------------------------------------------
// C30 — a grain is active on at most one node at a time.
//
// Three real actor systems with real remoting on loopback live in this test
// process. After Start each one gets a node view of ONE shared in-memory
// registry (c30Registry) as its cluster engine:
//
//	sys.cluster = view; sys.clusterNode = ...; sys.clusterEnabled.Store(true)
//
// so InCluster() is true and the whole grain engine (TellGrain / AskGrain /
// GrainIdentity, ensureGrainProcess, tryClaimGrain, finalizeGrainActivation,
// deactivate, the remote handlers) runs its cluster code against the fake.
// The registry is a map under one mutex (linearizable); the atomic claim is
// offered through the prologue injected into cluster.PutGrainIfAbsent.
//
// Every registry operation is (1) a seeded noise point, (2) a stall point and
// (3) a fault point of the generated plan.
//
// Oracle: the grain type itself maintains identity -> set of (node, activation#),
// inserting when OnActivate is about to return nil and removing when
// OnDeactivate RETURNS (the hook takes a generated few milliseconds: an instance
// that is still flushing its state is still an instance). Two members on
// different nodes = two instances at one moment. After settle the registry record must name the holder, and a later
// send must succeed and leave exactly one registered holder.
// ---------------------------------------------------------------------------

const (
	c30KExists = iota
	c30KGet
	c30KClaim
	c30KPut
	c30KRemove
	c30NKinds
)

var c30KindName = [c30NKinds]string{"exists", "get", "claim", "put", "remove"}

const c30MaxNodes = 3

// c30Always in an OnActivate failure script: every call fails
const c30Always = 1000

const (
	c30OpTell     = iota // TellGrain(TestSend)
	c30OpAsk             // AskGrain(TestPing)
	c30OpIdentity        // GrainIdentity(name, factory, strategy)
	c30OpKillTell        // TellGrain(PoisonPill): the grain deactivates itself
	c30OpKillAsk         // AskGrain(PoisonPill)
	c30NOps
)

var c30OpName = [c30NOps]string{"tell", "ask", "identity", "kill-tell", "kill-ask"}

// Root-cause fingerprints. The harness watches the registry protocol of every
// identity for anomalies and names a violation after the FIRST anomaly seen for
// that identity; the generic fingerprints ("two-nodes-active",
// "holder-without-record", ...) are used only when no anomaly preceded the
// violation. G and F are goakt functions found on the call stack.
//
//	unsafe-removal-by-<G>:live
//	    G removed the record while some node had a live activation of the identity
//	unsafe-removal-by-<G>:then-unowned-activation-by-<F>
//	    OnActivate succeeded on a node, under F, while the record did not name that
//	    node, and G removed the record after the registry had told that node that
//	    it owns the identity, or the record is absent and was last removed by G, or
//	    the node's own last registry write on the identity was a removal by G
//	unowned-activation-by-<F>:never-claimed | :record-names-other-node
//	    as above, without a removal to blame
//	lost-claim-owner-vanished:unowned-activation-by-<F>
//	    as above, after the node lost an atomic claim and the follow-up GetGrain
//	    found no record any more (the winner rolled back in between)
//	unowned-activation-by-actorSystem.recreateGrainOnce:remote-request-on-stale-view
//	    the remote-activation handler activated the grain although the record does
//	    not name its node (it never checks; the requester's view was stale)
//	unsafe-removal-by-<G>:not-its-own-claim
//	    a roll-back G removed a record that was written by another call (goroutine)
//	unsafe-removal-by-<G>:foreign-record
//	    G (a roll-back or deactivate) removed a record that names another node
//	unsafe-removal-by-actorSystem.tryRemoteGrainActivation:owner-alive
//	    the "owner unreachable" clean-up removed the record of a node that is up
//	record-overwritten-by-late-publish:<F>
//	    the PutGrain of finalizeGrainActivation (publication), issued under F,
//	    changed the owner of an existing record to a node that had no live
//	    activation any more when the write landed
//	record-overwritten-by-publish:<F> | record-overwritten-by-claim:<F> | record-overwritten-by-put:<F>
//	    any other PutGrain that changed the owner of an existing record
//	    (publication by a live holder / a PutGrain issued by tryClaimGrain / other)
//
// Two more, introduced when the holder interval was extended to the RETURN of
// OnDeactivate:
//
//	record-removed-before-ondeactivate-returned-by-grainPID.deactivate
//	    deactivate removed the registry record although the OnDeactivate hook of
//	    that very deactivation had not returned yet (the unchanged tree removes
//	    the record only after the hook returned and the local entry was deleted)
//	second-activation-while-first-in-ondeactivate:<first anomaly | no-registry-anomaly>
//	    family prefix of a "two nodes" violation in which every conflicting
//	    instance on another node was inside OnDeactivate when the new activation
//	    succeeded; never absorbed by the patterns listed for the families above
const (
	fpC30EarlyRemove = "record-removed-before-ondeactivate-returned-by-"
	fpC30Draining    = "second-activation-while-first-in-ondeactivate:"
)

const (
	fpC30Removal   = "unsafe-removal-by-"
	fpC30Overwrite = "record-overwritten-by-"
	fpC30Unowned   = "unowned-activation-by-"
	fpC30Vanished  = "lost-claim-owner-vanished:unowned-activation-by-"
)

// c30SkipFrames are plumbing functions that never decide anything themselves.
var c30SkipFrames = map[string]bool{
	"actorSystem.putGrainOnCluster": true, "actorSystem.finalizeGrainActivation": true,
	"actorSystem.tryClaimGrain": true, "actorSystem.getGrainOwner": true,
	"actorSystem.runGrainActivation": true, "grainPID.activate": true,
}

// c30Goid returns the id of the calling goroutine (attribution only).
func c30Goid() int64 {
	var buf [64]byte
	n := runtime.Stack(buf[:], false)
	// "goroutine 123 [running]:"
	f := strings.Fields(string(buf[:n]))
	if len(f) < 2 {
		return -1
	}
	var id int64
	for _, c := range f[1] {
		if c < '0' || c > '9' {
			return -1
		}
		id = id*10 + int64(c-'0')
	}
	return id
}

// c30OnStack reports whether a function with that name suffix is on the call stack.
func c30OnStack(suffix string) bool {
	pcs := make([]uintptr, 40)
	n := runtime.Callers(2, pcs)
	frames := runtime.CallersFrames(pcs[:n])
	for {
		f, more := frames.Next()
		if strings.HasSuffix(f.Function, suffix) {
			return true
		}
		if !more {
			return false
		}
	}
}

// c30PutRole tells which engine step issued the PutGrain on the stack.
func c30PutRole() string {
	pcs := make([]uintptr, 40)
	n := runtime.Callers(2, pcs)
	frames := runtime.CallersFrames(pcs[:n])
	for {
		f, more := frames.Next()
		switch {
		case strings.HasSuffix(f.Function, ".finalizeGrainActivation"):
			return "publish"
		case strings.HasSuffix(f.Function, ".tryClaimGrain"):
			return "claim"
		}
		if !more {
			return "put"
		}
	}
}

// c30CallSite names the first deciding goakt function above the harness on the stack.
func c30CallSite() string { return c30CallSiteSkip(c30SkipFrames) }

// c30RemoveSite is c30CallSite for removals: finalizeGrainActivation has roll-back
// removals of its own and is named.
func c30RemoveSite() string { return c30CallSiteSkip(c30SkipFramesRemove) }

var c30SkipFramesRemove = map[string]bool{
	"actorSystem.runGrainActivation": true,
}

func c30CallSiteSkip(skip map[string]bool) string {
	pcs := make([]uintptr, 40)
	n := runtime.Callers(2, pcs)
	frames := runtime.CallersFrames(pcs[:n])
	for {
		f, more := frames.Next()
		fn := f.Function
		if i := strings.LastIndex(fn, "/actor."); i >= 0 && !strings.Contains(fn, "c30") {
			name := fn[i+len("/actor."):]
			name = strings.NewReplacer("(*", "", ")", "").Replace(name)
			if j := strings.Index(name, ".func"); j >= 0 {
				name = name[:j]
			}
			if !skip[name] {
				return name
			}
		}
		if !more {
			return "unknown"
		}
	}
}

var errC30Injected = errors.New("c30: injected registry fault")
var errC30Activate = errors.New("c30: injected OnActivate failure")

// --------------------------- the case ---------------------------------------

type c30Op struct {
	Kind    int `json:"kind"`
	Ident   int `json:"ident"`
	Strat   int `json:"strat"`    // identity op: 0 local, 1 round-robin, 2 random
	PauseUs int `json:"pause_us"` // pause before the op
}

type c30Thread struct {
	Node int     `json:"node"`
	Ops  []c30Op `json:"ops"`
}

type c30Point struct {
	Node   int `json:"node"`
	Kind   int `json:"kind"`
	K      int `json:"k"`                // the K-th (0-based) operation of that kind issued by that node in this case
	Micros int `json:"micros,omitempty"` // stall only
}

type c30Case struct {
	Nodes      int         `json:"nodes"`
	Idents     int         `json:"idents"`
	Threads    []c30Thread `json:"threads"`
	ActFail    []int       `json:"act_fail"`  // per node: the first n OnActivate calls of an identity on that node fail
	FailMode   int         `json:"fail_mode"` // 0 terminal error, 1 panic
	Faults     []c30Point  `json:"faults"`
	Stalls     []c30Point  `json:"stalls"`
	NoiseSeed  uint64      `json:"noise_seed"`
	NoisePm    int         `json:"noise_pm"`    // per-mille probability of a pause at a registry noise point
	NoiseSleep int         `json:"noise_sleep"` // max pause in microseconds
	ProbeNode  int         `json:"probe_node"`
	DeactUs    int         `json:"deact_us"` // how long OnDeactivate takes (microseconds); the instance is held until it returns
}

// c30Gen returns the generator of a unit. lifecycle=false: activation races
// only (no deactivation requests, no registry faults); lifecycle=true: everything.
func c30Gen(lifecycle bool) func(t *rapid.T) c30Case {
	return func(t *rapid.T) c30Case { return c30GenCase(t, lifecycle) }
}

func c30GenCase(t *rapid.T, lifecycle bool) c30Case {
	var c c30Case
	c.Nodes = rapid.SampledFrom([]int{2, 2, 3}).Draw(t, "nodes")
	c.Idents = rapid.SampledFrom([]int{1, 1, 1, 2}).Draw(t, "idents")
	withKill := lifecycle && rapid.IntRange(0, 9).Draw(t, "withKill") < 7
	nThreads := rapid.IntRange(2, 6).Draw(t, "nThreads")
	for i := 0; i < nThreads; i++ {
		var th c30Thread
		if i < c.Nodes {
			th.Node = i // every node takes part
		} else {
			th.Node = rapid.IntRange(0, c.Nodes-1).Draw(t, "node")
		}
		nOps := rapid.IntRange(1, 4).Draw(t, "nOps")
		for j := 0; j < nOps; j++ {
			var op c30Op
			w := rapid.IntRange(0, 99).Draw(t, "opw")
			switch {
			case w < 30:
				op.Kind = c30OpTell
			case w < 60:
				op.Kind = c30OpAsk
			case w < 78:
				op.Kind = c30OpIdentity
				op.Strat = rapid.IntRange(0, 2).Draw(t, "strat")
			default:
				if withKill {
					op.Kind = c30OpKillTell + rapid.IntRange(0, 1).Draw(t, "killKind")
				} else {
					op.Kind = c30OpAsk
				}
			}
			if c.Idents > 1 {
				op.Ident = rapid.IntRange(0, c.Idents-1).Draw(t, "ident")
			}
			op.PauseUs = rapid.SampledFrom([]int{0, 0, 0, 50, 300, 2000}).Draw(t, "pause")
			th.Ops = append(th.Ops, op)
		}
		c.Threads = append(c.Threads, th)
	}
	c.ActFail = make([]int, c30MaxNodes)
	if rapid.IntRange(0, 9).Draw(t, "withActFail") < 4 {
		for n := 0; n < c.Nodes; n++ {
			c.ActFail[n] = rapid.SampledFrom([]int{0, 0, 1, 1, 2, c30Always}).Draw(t, "actFail")
		}
	}
	c.FailMode = rapid.IntRange(0, 1).Draw(t, "failMode")
	if lifecycle && rapid.IntRange(0, 9).Draw(t, "withFaults") < 4 {
		n := rapid.IntRange(1, 3).Draw(t, "nFaults")
		for i := 0; i < n; i++ {
			c.Faults = append(c.Faults, c30Point{
				Node: rapid.IntRange(0, c.Nodes-1).Draw(t, "fnode"),
				Kind: rapid.IntRange(0, c30NKinds-1).Draw(t, "fkind"),
				K:    rapid.SampledFrom([]int{0, 0, 1, 1, 2, 3}).Draw(t, "fk"),
			})
		}
	}
	if rapid.IntRange(0, 9).Draw(t, "withStalls") < 6 {
		n := rapid.IntRange(1, 3).Draw(t, "nStalls")
		for i := 0; i < n; i++ {
			c.Stalls = append(c.Stalls, c30Point{
				Node:   rapid.IntRange(0, c.Nodes-1).Draw(t, "snode"),
				Kind:   rapid.IntRange(0, c30NKinds-1).Draw(t, "skind"),
				K:      rapid.SampledFrom([]int{0, 0, 1, 1, 2, 3}).Draw(t, "sk"),
				Micros: rapid.SampledFrom([]int{500, 2000, 10000, 30000}).Draw(t, "smicros"),
			})
		}
	}
	c.NoiseSeed = rapid.Uint64().Draw(t, "noiseSeed")
	c.NoisePm = rapid.SampledFrom([]int{0, 100, 300, 600}).Draw(t, "noisePm")
	c.NoiseSleep = rapid.SampledFrom([]int{0, 100, 500, 2000}).Draw(t, "noiseSleep")
	c.ProbeNode = rapid.IntRange(0, c.Nodes-1).Draw(t, "probeNode")
	if withKill {
		// a slow OnDeactivate: sends from the other nodes land while the first
		// holder is still inside its hook
		c.DeactUs = rapid.SampledFrom([]int{0, 1000, 3000, 8000, 8000, 20000}).Draw(t, "deactUs")
	}
	return c
}

// --------------------------- per-case run state ------------------------------

type c30Removal struct {
	ts   int64
	site string
}

type c30Holder struct {
	node int
	act  int
}

type c30Run struct {
	c      c30Case
	prefix string // grain names of this case start with it
	clock  atomic.Int64
	noise  atomic.Uint64
	quiet  atomic.Bool // probe / cleanup phase: no noise, no stalls, no faults, no finite OnActivate failure scripts
	// keepPermanent: during the probe a node whose script says "OnActivate always
	// fails" keeps failing (only when no registry fault was injected in the case)
	keepPermanent atomic.Bool

	mu       sync.Mutex
	hist     []string
	holders  map[string]map[c30Holder]bool
	actCalls map[string]int // id|node -> OnActivate calls so far
	actSeq   map[string]int // id -> activations so far (activation numbers)
	opSeq    [c30MaxNodes][c30NKinds]int
	claimed  map[string]bool // id|node -> node holds a successful claim that it has not published / released yet
	claimers map[string]map[int]bool
	// draining[id]: members of holders[id] that are inside OnDeactivate (the hook
	// has been entered and has not returned yet); they still hold the instance
	draining map[string]map[c30Holder]bool
	// anomaly[id]: fingerprint of the first protocol anomaly seen for id
	anomaly map[string]string
	// lastWrite[id|node]: last registry write of that node on id ("claim", "put" or "remove:<site>")
	lastWrite map[string]string
	// lastWriteG[id|goroutine]: the same per goroutine (an unclaimed activation
	// runs on the goroutine that removed the "stale" entry just before)
	lastWriteG map[string]string
	// lastRemoval[id]: the function that removed the record last, "" once it was written again
	lastRemoval map[string]string
	// ownSeen[id|node]: logical time at which the registry last told that node
	// that it owns id (its claim succeeded, or a get returned it as the owner)
	ownSeen map[string]int64
	// writer[id]: goroutine that created the current record or changed its owner
	// (a successful claim, or a put over no record / another owner)
	writer map[string]int64
	// removals[id]: every removal of the record (time, function)
	removals map[string][]c30Removal
	// vanished[id|node]: the node's last claim lost and the look-up of the winner
	// (the GetGrain inside tryClaimGrain) found no record
	vanished  map[string]bool
	violFP    string
	violMsg   string
	sameNode  int
	claimLost int
	failAfter int // injected failures that hit between a node's successful claim and its publish
	faultsHit int
	stallsHit int
	actFails  int
}

func (r *c30Run) anomalyLocked(id, fp string) {
	if r.anomaly[id] == "" {
		r.anomaly[id] = fp
	}
}

func (r *c30Run) owns(id string) bool { return strings.Contains(id, r.prefix) }

func (r *c30Run) logf(format string, args ...any) {
	ts := r.clock.Add(1)
	r.mu.Lock()
	r.logLocked(ts, format, args...)
	r.mu.Unlock()
}

func (r *c30Run) logLocked(ts int64, format string, args ...any) {
	if len(r.hist) < 1500 {
		r.hist = append(r.hist, fmt.Sprintf("t%04d ", ts)+fmt.Sprintf(format, args...))
	}
}

func (r *c30Run) short(id string) string {
	if i := strings.Index(id, r.prefix); i >= 0 {
		return id[i:]
	}
	return id
}

// pause is a registry noise point.
func (r *c30Run) pause() {
	if r.quiet.Load() || r.c.NoisePm <= 0 {
		return
	}
	z := r.noise.Add(0x9E3779B97F4A7C15) + r.c.NoiseSeed
	z = (z ^ (z >> 30)) * 0xBF58476D1CE4E5B9
	z = (z ^ (z >> 27)) * 0x94D049BB133111EB
	z ^= z >> 31
	if int(z%1000) >= r.c.NoisePm {
		return
	}
	if r.c.NoiseSleep == 0 || (z>>16)&1 == 0 {
		for i := 0; i < int((z>>20)%4)+1; i++ {
			// several Gosched calls move the goroutine behind the other runnable ones
			yieldC30()
		}
		return
	}
	time.Sleep(time.Duration((z>>24)%uint64(r.c.NoiseSleep)+1) * time.Microsecond)
}

func (r *c30Run) holderList(id string) []c30Holder {
	var out []c30Holder
	for h := range r.holders[id] {
		out = append(out, h)
	}
	sort.Slice(out, func(i, j int) bool {
		if out[i].node != out[j].node {
			return out[i].node < out[j].node
		}
		return out[i].act < out[j].act
	})
	return out
}

// --------------------------- the shared registry -----------------------------

type c30Registry struct {
	mu       sync.Mutex
	grains   map[string]*internalpb.Grain
	rr       map[string]int
	views    []*c30View
	run      atomic.Pointer[c30Run]
	inflight atomic.Int64
	events   chan *cluster.Event

	umu        sync.Mutex
	unexpected map[string]int
}

func (g *c30Registry) note(name string) {
	g.umu.Lock()
	g.unexpected[name]++
	g.umu.Unlock()
}

// c30View is the cluster engine of one node.
type c30View struct {
	reg  *c30Registry
	idx  int
	peer *cluster.Peer
}

var _ cluster.Cluster = (*c30View)(nil)

// op wraps one registry operation: sequence number, noise, stall, fault, then
// the atomic step under the registry mutex, then noise again.
func (v *c30View) op(kind int, id string, step func() (string, error)) error {
	v.reg.inflight.Add(1)
	defer v.reg.inflight.Add(-1)
	r := v.reg.run.Load()
	if r == nil || !r.owns(id) {
		v.reg.mu.Lock()
		_, err := step()
		v.reg.mu.Unlock()
		return err
	}
	quiet := r.quiet.Load()
	r.mu.Lock()
	k := r.opSeq[v.idx][kind]
	r.opSeq[v.idx][kind]++
	var stall time.Duration
	fault := false
	if !quiet {
		for _, s := range r.c.Stalls {
			if s.Node == v.idx && s.Kind == kind && s.K == k {
				stall += time.Duration(s.Micros) * time.Microsecond
				r.stallsHit++
			}
		}
		for _, f := range r.c.Faults {
			if f.Node == v.idx && f.Kind == kind && f.K == k {
				fault = true
			}
		}
		if fault {
			r.faultsHit++
			if r.claimed[fmt.Sprintf("%s|%d", id, v.idx)] {
				r.failAfter++
			}
		}
	}
	r.mu.Unlock()
	begin := r.clock.Add(1)
	r.pause()
	if stall > 0 {
		time.Sleep(stall)
	}
	if fault {
		note := ""
		if kind == c30KRemove {
			// the attempt counts for attribution: the caller goes on as if the record were gone
			site := c30RemoveSite()
			note = " [called by " + site + "]"
			r.mu.Lock()
			r.lastWrite[fmt.Sprintf("%s|%d", id, v.idx)] = "remove:" + site
			r.lastWriteG[fmt.Sprintf("%s|g%d", id, c30Goid())] = "remove:" + site
			r.mu.Unlock()
		}
		r.logf("n%d %s#%d(%s) begin=t%04d -> INJECTED FAULT (registry unchanged)%s", v.idx, c30KindName[kind], k, r.short(id), begin, note)
		return errC30Injected
	}
	v.reg.mu.Lock()
	res, err := step()
	ts := r.clock.Add(1)
	r.mu.Lock()
	ck := fmt.Sprintf("%s|%d", id, v.idx)
	gk := fmt.Sprintf("%s|g%d", id, c30Goid())
	switch kind {
	case c30KClaim:
		if r.claimers[id] == nil {
			r.claimers[id] = map[int]bool{}
		}
		r.claimers[id][v.idx] = true
		if err == nil {
			r.claimed[ck] = true
		} else {
			r.claimLost++
		}
	case c30KPut, c30KRemove:
		if err == nil {
			delete(r.claimed, ck)
		}
	}
	switch kind {
	case c30KRemove:
		site := c30RemoveSite()
		res += " [called by " + site + "]"
		r.lastWrite[ck] = "remove:" + site
		r.lastWriteG[gk] = "remove:" + site
		r.lastRemoval[id] = site
		r.removals[id] = append(r.removals[id], c30Removal{ts, site})
		if site != "grainPID.deactivate" {
			// a roll-back on this node ends its own ownership evidence: the flow that
			// removes the record knows it does not own the identity any more. The
			// removal at the tail of deactivate runs beside the node's activation
			// flights, which keep relying on what the registry told them.
			delete(r.ownSeen, ck)
		}
		effective := !strings.Contains(res, "(was none)")
		if site == "grainPID.deactivate" {
			if ph, ok := c30Fix.deactPhase.Load(c30Goid()); ok && !ph.(*atomic.Bool).Load() {
				// this deactivate call has not got its OnDeactivate hook back yet
				r.anomalyLocked(id, fpC30EarlyRemove+site)
				res += " -- ANOMALY: the OnDeactivate hook of this deactivation has not returned yet"
			}
		}
		w := r.writer[id]
		delete(r.writer, id)
		switch {
		case !effective:
		case site == "actorSystem.tryRemoteGrainActivation":
			// the function's premise is "the owner is unreachable (e.g. node crashed)";
			// every node of this harness is up and reachable for the whole run
			r.anomalyLocked(id, fpC30Removal+site+":owner-alive")
			res += " -- ANOMALY: the record belongs to a node that is alive and reachable"
		case site != "actorSystem.tryPeerActivation" && !strings.Contains(res, "(was "+v.addr()+")"):
			r.anomalyLocked(id, fpC30Removal+site+":foreign-record")
			res += " -- ANOMALY: the record names another node"
		case site != "grainPID.deactivate" && site != "actorSystem.tryRemoteGrainActivation" && w != 0 && w != c30Goid():
			// a roll-back releases "the claim this call made": claim and roll-back
			// run on one goroutine (the activation flight / the GrainIdentity call)
			r.anomalyLocked(id, fpC30Removal+site+":not-its-own-claim")
			res += " -- ANOMALY: this roll-back removes a record that another call wrote"
		}
		if hs := r.holderList(id); len(hs) > 0 {
			r.anomalyLocked(id, fpC30Removal+site+":live")
			res += fmt.Sprintf(" -- ANOMALY: LIVE ACTIVATION(S) (node, activation#) %v EXIST", hs)
		}
	case c30KPut:
		if err == nil {
			r.lastWrite[ck] = "put"
			r.lastWriteG[gk] = "put"
			if strings.Contains(res, "(was none)") || strings.Contains(res, "OWNER CHANGED") {
				r.writer[id] = c30Goid()
			}
			r.lastRemoval[id] = ""
			if strings.Contains(res, "OWNER CHANGED") {
				site := c30CallSite()
				role := c30PutRole()
				if role == "publish" {
					live := false
					for h := range r.holders[id] {
						if h.node == v.idx {
							live = true
						}
					}
					if !live {
						role = "late-publish"
					}
				}
				r.anomalyLocked(id, fpC30Overwrite+role+":"+site)
				res += " -- ANOMALY [" + role + " called by " + site + "]"
			}
		}
	case c30KClaim:
		if err == nil {
			r.lastWrite[ck] = "claim"
			r.lastWriteG[gk] = "claim"
			r.writer[id] = c30Goid()
			r.lastRemoval[id] = ""
			if strings.HasSuffix(res, "claimed for "+v.addr()) {
				r.ownSeen[ck] = ts
			}
		}
		r.vanished[ck] = false
		r.vanished[gk] = false
	case c30KGet:
		// the only GetGrain issued by tryClaimGrain is the look-up of the winner
		// after a lost claim (kept per node and per goroutine: another goroutine
		// of the node may claim in between)
		if c30OnStack(".tryClaimGrain") {
			r.vanished[ck] = err != nil
			r.vanished[gk] = err != nil
		}
		if err == nil && res == "owner "+v.addr() {
			r.ownSeen[ck] = ts
		}
	}
	r.logLocked(ts, "n%d %s#%d(%s) begin=t%04d -> %s", v.idx, c30KindName[kind], k, r.short(id), begin, res)
	r.mu.Unlock()
	v.reg.mu.Unlock()
	r.pause()
	return err
}

func (v *c30View) addr() string { return fmt.Sprintf("%s:%d", v.peer.Host, v.peer.RemotingPort) }

func c30Owner(g *internalpb.Grain) string {
	if g == nil {
		return "none"
	}
	return fmt.Sprintf("%s:%d", g.GetHost(), g.GetPort())
}

func (v *c30View) GrainExists(_ context.Context, identity string) (bool, error) {
	var ok bool
	err := v.op(c30KExists, identity, func() (string, error) {
		_, ok = v.reg.grains[identity]
		return fmt.Sprintf("%v", ok), nil
	})
	return ok && err == nil, err
}

func (v *c30View) GetGrain(_ context.Context, identity string) (*internalpb.Grain, error) {
	var out *internalpb.Grain
	err := v.op(c30KGet, identity, func() (string, error) {
		g, ok := v.reg.grains[identity]
		if !ok {
			return "not-found", cluster.ErrGrainNotFound
		}
		out = proto.Clone(g).(*internalpb.Grain)
		return "owner " + c30Owner(g), nil
	})
	if err != nil {
		return nil, err
	}
	return out, nil
}

func (v *c30View) PutGrain(_ context.Context, grain *internalpb.Grain) error {
	key := grain.GetGrainId().GetValue()
	if key == "" {
		return fmt.Errorf("grain id value is empty")
	}
	return v.op(c30KPut, key, func() (string, error) {
		prev := v.reg.grains[key]
		v.reg.grains[key] = proto.Clone(grain).(*internalpb.Grain)
		res := fmt.Sprintf("stored owner %s (was %s)", c30Owner(grain), c30Owner(prev))
		if prev != nil && c30Owner(prev) != c30Owner(grain) {
			res += " OWNER CHANGED"
		}
		return res, nil
	})
}

// VfPutGrainIfAbsent is reached through the prologue injected into
// cluster.PutGrainIfAbsent: the same entry point the engine uses for the real
// *cluster, answered atomically.
func (v *c30View) VfPutGrainIfAbsent(_ context.Context, grain *internalpb.Grain) error {
	key := grain.GetGrainId().GetValue()
	if key == "" {
		return fmt.Errorf("grain id value is empty")
	}
	return v.op(c30KClaim, key, func() (string, error) {
		if prev, ok := v.reg.grains[key]; ok {
			return "already owned by " + c30Owner(prev), cluster.ErrGrainAlreadyExists
		}
		v.reg.grains[key] = proto.Clone(grain).(*internalpb.Grain)
		return "claimed for " + c30Owner(grain), nil
	})
}

func (v *c30View) RemoveGrain(_ context.Context, identity string) error {
	return v.op(c30KRemove, identity, func() (string, error) {
		prev := v.reg.grains[identity]
		delete(v.reg.grains, identity)
		return "removed (was " + c30Owner(prev) + ")", nil
	})
}

func (v *c30View) Members(context.Context) ([]*cluster.Peer, error) {
	n := len(v.reg.views)
	if r := v.reg.run.Load(); r != nil {
		n = r.c.Nodes
	}
	out := make([]*cluster.Peer, 0, n)
	for i := 0; i < n; i++ {
		p := *v.reg.views[i].peer
		out = append(out, &p)
	}
	return out, nil
}

func (v *c30View) Peers(ctx context.Context) ([]*cluster.Peer, error) {
	all, _ := v.Members(ctx)
	out := all[:0]
	for _, p := range all {
		if p.PeerAddress() != v.peer.PeerAddress() {
			out = append(out, p)
		}
	}
	return out, nil
}

func (v *c30View) NextRoundRobinValue(_ context.Context, key string) (int, error) {
	v.reg.mu.Lock()
	v.reg.rr[key]++
	n := v.reg.rr[key]
	v.reg.mu.Unlock()
	return n, nil
}

func (v *c30View) Grains(context.Context, time.Duration) ([]*internalpb.Grain, error) {
	v.reg.mu.Lock()
	defer v.reg.mu.Unlock()
	out := make([]*internalpb.Grain, 0, len(v.reg.grains))
	for _, g := range v.reg.grains {
		out = append(out, proto.Clone(g).(*internalpb.Grain))
	}
	return out, nil
}

func (v *c30View) GrainsByHost(_ context.Context, host string, port int, _ time.Duration) ([]*internalpb.Grain, error) {
	v.reg.mu.Lock()
	defer v.reg.mu.Unlock()
	var out []*internalpb.Grain
	for _, g := range v.reg.grains {
		if g.GetHost() == host && int(g.GetPort()) == port {
			out = append(out, proto.Clone(g).(*internalpb.Grain))
		}
	}
	return out, nil
}

// The rest of the interface is not on any grain-engine path (checked by reading
// the callers); every call is counted and reported as a class so that a
// surprise is visible in the evidence.
func (v *c30View) Start(context.Context) error { v.reg.note("Start"); return nil }
func (v *c30View) Stop(context.Context) error  { v.reg.note("Stop"); return nil }
func (v *c30View) PutActor(context.Context, *internalpb.Actor) error {
	v.reg.note("PutActor")
	return nil
}
func (v *c30View) PutActorIfAbsent(context.Context, *internalpb.Actor) error {
	v.reg.note("PutActorIfAbsent")
	return nil
}
func (v *c30View) GetActor(context.Context, string) (*internalpb.Actor, error) {
	v.reg.note("GetActor")
	return nil, cluster.ErrActorNotFound
}
func (v *c30View) RemoveActor(context.Context, string) error { v.reg.note("RemoveActor"); return nil }
func (v *c30View) ActorExists(context.Context, string) (bool, error) {
	v.reg.note("ActorExists")
	return false, nil
}
func (v *c30View) Actors(context.Context, time.Duration) ([]*internalpb.Actor, error) {
	v.reg.note("Actors")
	return nil, nil
}
func (v *c30View) ActorsByHost(context.Context, string, int, time.Duration) ([]*internalpb.Actor, error) {
	v.reg.note("ActorsByHost")
	return nil, nil
}
func (v *c30View) CountActorsByHost(context.Context, time.Duration) (map[string]int, error) {
	v.reg.note("CountActorsByHost")
	return map[string]int{}, nil
}
func (v *c30View) Events() <-chan *cluster.Event { return v.reg.events }
func (v *c30View) IsLeader(context.Context) bool { return v.idx == 0 }
func (v *c30View) GetPartition(string) uint64    { return 0 }
func (v *c30View) IsRunning() bool               { return true }
func (v *c30View) LastRebalanceEvent() time.Time { return time.Time{} }
func (v *c30View) ClaimScheduleFire(context.Context, string, time.Duration) error {
	v.reg.note("ClaimScheduleFire")
	return errors.New("c30: not supported")
}
func (v *c30View) PutJobKey(context.Context, string, []byte) error {
	v.reg.note("PutJobKey")
	return errors.New("c30: not supported")
}
func (v *c30View) DeleteJobKey(context.Context, string) error {
	v.reg.note("DeleteJobKey")
	return errors.New("c30: not supported")
}
func (v *c30View) JobKey(context.Context, string) ([]byte, error) {
	v.reg.note("JobKey")
	return nil, errors.New("c30: not supported")
}

// --------------------------- the instrumented grain --------------------------

type c30Grain struct {
	node int
	act  int
	id   string
}

func (g *c30Grain) OnActivate(_ context.Context, props *GrainProps) error {
	fix := &c30Fix
	id := props.Identity().String()
	node := fix.nodeOf(props.ActorSystem())
	r := fix.reg.run.Load()
	if r == nil || !r.owns(id) || node < 0 {
		fix.reg.note("stray_OnActivate")
		return nil
	}
	// the record as it is while this OnActivate runs (read before r.mu: the
	// registry lock is always taken first)
	fix.reg.mu.Lock()
	rec := fix.reg.grains[id]
	fix.reg.mu.Unlock()
	ts := r.clock.Add(1)
	r.mu.Lock()
	ck := fmt.Sprintf("%s|%d", id, node)
	call := r.actCalls[ck]
	r.actCalls[ck]++
	if node >= 0 && node < len(r.c.ActFail) && call < r.c.ActFail[node] && (!r.quiet.Load() || (r.c.ActFail[node] >= c30Always && r.keepPermanent.Load())) {
		r.actFails++
		if r.claimed[ck] {
			r.failAfter++
		}
		r.logLocked(ts, "n%d OnActivate(%s) call#%d -> INJECTED FAILURE", node, r.short(id), call)
		r.mu.Unlock()
		if r.c.FailMode == 1 {
			panic(errC30Activate)
		}
		// a terminal error: the activation retrier gives up at once instead of
		// sleeping out its (1 s) back-off
		return retry.Stop(errC30Activate)
	}
	r.actSeq[id]++
	g.node, g.act, g.id = node, r.actSeq[id], id
	set := r.holders[id]
	if set == nil {
		set = map[c30Holder]bool{}
		r.holders[id] = set
	}
	set[c30Holder{node, g.act}] = true
	note := ""
	if me := fix.reg.views[node].peer; rec == nil || rec.GetHost() != me.Host || int(rec.GetPort()) != me.RemotingPort {
		site := c30CallSite()
		own := strings.TrimPrefix(r.lastWrite[ck], "remove:")
		ownG := r.lastWriteG[fmt.Sprintf("%s|g%d", id, c30Goid())]
		blamed := ""
		if seen, ok := r.ownSeen[ck]; ok {
			// the registry told this node it owns the identity; who removed the record since?
			for _, rm := range r.removals[id] {
				if rm.ts > seen {
					blamed = rm.site
					break
				}
			}
		}
		var fp string
		switch {
		case site == "actorSystem.recreateGrainOnce":
			// a remote activation request: the handler activates and publishes on
			// the strength of the requester's (stale) view, without any check of its own
			fp = fpC30Unowned + site + ":remote-request-on-stale-view"
		case r.vanished[ck] || r.vanished[fmt.Sprintf("%s|g%d", id, c30Goid())]:
			fp = fpC30Vanished + site
		case blamed != "":
			fp = fpC30Removal + blamed + ":then-unowned-activation-by-" + site
		case strings.HasPrefix(ownG, "remove:"): // this goroutine's last write was a removal
			fp = fpC30Removal + strings.TrimPrefix(ownG, "remove:") + ":then-unowned-activation-by-" + site
		case own != r.lastWrite[ck]: // this node's last write was a removal
			fp = fpC30Removal + own + ":then-unowned-activation-by-" + site
		case rec == nil && r.lastRemoval[id] != "":
			fp = fpC30Removal + r.lastRemoval[id] + ":then-unowned-activation-by-" + site
		case rec == nil:
			fp = fpC30Unowned + site + ":never-claimed"
		default:
			fp = fpC30Unowned + site + ":record-names-other-node"
		}
		r.anomalyLocked(id, fp)
		note = fmt.Sprintf(" -- ANOMALY: the registry record names %s, not this node [called by %s]", c30Owner(rec), site)
	}
	r.logLocked(ts, "n%d OnActivate(%s) call#%d -> ok, activation #%d; holders now %v%s", node, r.short(id), call, g.act, r.holderList(id), note)
	if len(set) > 1 {
		nodes := map[int]bool{}
		for h := range set {
			nodes[h.node] = true
		}
		if len(nodes) > 1 {
			if r.violFP == "" {
				// is every conflicting instance on another node inside OnDeactivate?
				othersLive, othersDraining := 0, []c30Holder{}
				for h := range set {
					if h.node == node {
						continue
					}
					if r.draining[id][h] {
						othersDraining = append(othersDraining, h)
					} else {
						othersLive++
					}
				}
				a := r.anomaly[id]
				r.violFP = "two-nodes-active"
				r.violMsg = fmt.Sprintf("grain %s is active on %d nodes at once: holders (node, activation#) = %v", r.short(id), len(nodes), r.holderList(id))
				if a != "" {
					r.violFP = a
					r.violMsg += " -- first protocol anomaly for this identity: " + a
				}
				if othersLive == 0 && len(othersDraining) > 0 {
					if a == "" {
						a = "no-registry-anomaly"
					}
					r.violFP = fpC30Draining + a
					r.violMsg = fmt.Sprintf("grain %s: activation #%d succeeded on node %d while %v (node, activation#) was still inside OnDeactivate (an instance is held until its OnDeactivate returns); holders = %v; first protocol anomaly for this identity: %s", r.short(id), g.act, node, othersDraining, r.holderList(id), a)
				}
			}
		} else {
			r.sameNode++
		}
	}
	r.mu.Unlock()
	return nil
}

func (g *c30Grain) OnDeactivate(_ context.Context, props *GrainProps) error {
	fix := &c30Fix
	id := props.Identity().String()
	r := fix.reg.run.Load()
	if r == nil || !r.owns(id) {
		fix.reg.note("stray_OnDeactivate")
		return nil
	}
	h := c30Holder{g.node, g.act}
	ts := r.clock.Add(1)
	r.mu.Lock()
	was := r.holders[id][h]
	if was {
		if r.draining[id] == nil {
			r.draining[id] = map[c30Holder]bool{}
		}
		r.draining[id][h] = true
	}
	r.logLocked(ts, "n%d OnDeactivate(%s) activation #%d enter (holder: %v; the instance is held until the hook returns, %d us)", g.node, r.short(id), g.act, was, r.c.DeactUs)
	r.mu.Unlock()
	if r.c.DeactUs > 0 && !r.quiet.Load() {
		time.Sleep(time.Duration(r.c.DeactUs) * time.Microsecond)
	}
	ts = r.clock.Add(1)
	r.mu.Lock()
	delete(r.holders[id], h)
	delete(r.draining[id], h)
	r.logLocked(ts, "n%d OnDeactivate(%s) activation #%d exit; holders now %v", g.node, r.short(id), g.act, r.holderList(id))
	r.mu.Unlock()
	// tell the deactivate call running on this goroutine that its hook is back
	if ph, ok := fix.deactPhase.Load(c30Goid()); ok {
		ph.(*atomic.Bool).Store(true)
	}
	return nil
}

func (g *c30Grain) OnReceive(ctx *GrainContext) {
	switch ctx.Message().(type) {
	case *testpb.TestPing:
		ctx.Response(&testpb.Reply{Content: fmt.Sprintf("%d/%d", g.node, g.act)})
	case *testpb.TestSend:
		ctx.NoErr()
	default:
		ctx.Unhandled()
	}
}

// --------------------------- fixture -----------------------------------------

type c30Fixture struct {
	err   error
	reg   *c30Registry
	sys   []*actorSystem
	seq   atomic.Int64
	deact atomic.Int64 // deactivate() calls in progress (prologue hooks)
	// deactPhase: goroutine id of a running deactivate call -> *atomic.Bool
	// "its OnDeactivate hook has returned"
	deactPhase sync.Map
}

var (
	c30FixOnce sync.Once
	c30Fix     c30Fixture
)

func (f *c30Fixture) nodeOf(s ActorSystem) int {
	for i, x := range f.sys {
		if ActorSystem(x) == s {
			return i
		}
	}
	return -1
}

func yieldC30() { runtime.Gosched() }

func c30StartSystem(name string) (*actorSystem, int, error) {
	var lastErr error
	for attempt := 0; attempt < 5; attempt++ {
		port := inet.Get(1)[0]
		sys, err := NewActorSystem(name, WithLogger(log.DiscardLogger), WithRemote(remote.NewConfig("127.0.0.1", port)))
		if err != nil {
			return nil, 0, err
		}
		if err := sys.Start(context.Background()); err != nil {
			lastErr = err
			continue
		}
		return sys.(*actorSystem), port, nil
	}
	return nil, 0, lastErr
}

func c30Fixtures(t *testing.T) *c30Fixture {
	c30FixOnce.Do(func() {
		f := &c30Fix
		f.reg = &c30Registry{grains: map[string]*internalpb.Grain{}, rr: map[string]int{}, unexpected: map[string]int{}, events: make(chan *cluster.Event)}
		c30DeactEnter = func(*grainPID) {
			f.deact.Add(1)
			f.deactPhase.Store(c30Goid(), new(atomic.Bool)) // false: OnDeactivate not back yet
		}
		c30DeactExit = func(*grainPID) {
			f.deactPhase.Delete(c30Goid())
			f.deact.Add(-1)
		}
		ctx := context.Background()
		stopAll := func() {
			for _, s := range f.sys {
				// leave the fake before shutdown so that Stop takes the plain
				// (non-cluster) path
				s.locker.Lock()
				s.clusterEnabled.Store(false)
				s.cluster = nil
				s.locker.Unlock()
				_ = s.Stop(context.Background())
			}
		}
		for i := 0; i < c30MaxNodes; i++ {
			sys, port, err := c30StartSystem(fmt.Sprintf("c30n%d", i))
			if err != nil {
				f.err = err
				stopAll()
				return
			}
			f.sys = append(f.sys, sys)
			_ = sys.RegisterGrainKind(ctx, &c30Grain{})
			view := &c30View{reg: f.reg, idx: i, peer: &cluster.Peer{
				Host: "127.0.0.1", DiscoveryPort: 40000 + i, PeersPort: 41000 + i, RemotingPort: port, Coordinator: i == 0, CreatedAt: int64(i + 1),
			}}
			f.reg.views = append(f.reg.views, view)
		}
		// the three in-package assignments that put a started, remoting-enabled
		// system "in a cluster" whose engine is the fake
		for i, sys := range f.sys {
			v := f.reg.views[i]
			sys.locker.Lock()
			sys.cluster = v
			sys.clusterNode = &discovery.Node{Name: sys.name, Host: "127.0.0.1", DiscoveryPort: v.peer.DiscoveryPort, PeersPort: v.peer.PeersPort, RemotingPort: v.peer.RemotingPort}
			sys.locker.Unlock()
			sys.clusterEnabled.Store(true)
		}
		t.Cleanup(stopAll)
	})
	return &c30Fix
}

// --------------------------- execution ---------------------------------------

type c30Result struct {
	thread, idx int
	err         error
	reply       string
	dur         time.Duration
}

func c30IsTimeout(err error) bool {
	if err == nil {
		return false
	}
	s := err.Error()
	return errors.Is(err, context.DeadlineExceeded) || strings.Contains(s, "timeout") || strings.Contains(s, "timed out") || strings.Contains(s, "deadline")
}

func c30Exec(fix *c30Fixture) func(x *vfkit.X, c c30Case) {
	return func(x *vfkit.X, c c30Case) {
		ctx := context.Background()
		seq := fix.seq.Add(1)
		r := &c30Run{c: c, prefix: fmt.Sprintf("c30g%d-", seq), holders: map[string]map[c30Holder]bool{}, actCalls: map[string]int{}, actSeq: map[string]int{}, claimed: map[string]bool{}, claimers: map[string]map[int]bool{}, anomaly: map[string]string{}, draining: map[string]map[c30Holder]bool{}, lastWrite: map[string]string{}, lastWriteG: map[string]string{}, lastRemoval: map[string]string{}, ownSeen: map[string]int64{}, removals: map[string][]c30Removal{}, writer: map[string]int64{}, vanished: map[string]bool{}}
		idents := make([]*GrainIdentity, c.Idents)
		names := make([]string, c.Idents)
		for i := range idents {
			names[i] = fmt.Sprintf("%s%d", r.prefix, i)
			idents[i] = newGrainIdentity(&c30Grain{}, names[i])
			// GrainIdentity.String() fills its cache lazily and without
			// synchronization; the identity is shared by the threads of the case,
			// so the cache is filled here, before they start (a torn string crashed
			// the harness once)
			_ = idents[i].String()
			_ = idents[i].Validate()
		}
		fix.reg.run.Store(r)

		// cleanup runs whatever happens: no grain, no record and no goroutine of
		// this case survives it
		defer func() {
			r.quiet.Store(true)
			for _, id := range idents {
				for _, sys := range fix.sys {
					if pid, ok := sys.grains.Get(id.String()); ok {
						if pid.isActive() {
							cctx, cancel := context.WithTimeout(ctx, 5*time.Second)
							_ = pid.deactivate(cctx)
							cancel()
						}
						sys.grains.Delete(id.String())
					}
				}
				fix.reg.mu.Lock()
				delete(fix.reg.grains, id.String())
				fix.reg.mu.Unlock()
			}
			fix.reg.run.Store(nil)
		}()

		// ---- run the program
		start := make(chan struct{})
		var wg sync.WaitGroup
		resCh := make(chan c30Result, 64)
		for ti, th := range c.Threads {
			wg.Add(1)
			go func(ti int, th c30Thread) {
				defer wg.Done()
				sys := fix.sys[th.Node]
				<-start
				for oi, op := range th.Ops {
					if op.PauseUs > 0 {
						time.Sleep(time.Duration(op.PauseUs) * time.Microsecond)
					}
					id := idents[op.Ident%len(idents)]
					octx, cancel := context.WithTimeout(ctx, 20*time.Second)
					t0 := time.Now()
					var err error
					var reply string
					r.logf("n%d thread%d op%d %s(%s) begin", th.Node, ti, oi, c30OpName[op.Kind], r.short(id.String()))
					switch op.Kind {
					case c30OpTell:
						err = sys.TellGrain(octx, id, new(testpb.TestSend))
					case c30OpAsk:
						var resp any
						resp, err = sys.AskGrain(octx, id, new(testpb.TestPing), 4*time.Second)
						if rp, ok := resp.(*testpb.Reply); ok {
							reply = rp.GetContent()
						}
					case c30OpIdentity:
						strat := []ActivationStrategy{LocalActivation, RoundRobinActivation, RandomActivation}[op.Strat%3]
						_, err = sys.GrainIdentity(octx, names[op.Ident%len(names)], func(context.Context) (Grain, error) { return &c30Grain{}, nil }, WithActivationStrategy(strat), WithGrainInitMaxRetries(1))
					case c30OpKillTell:
						err = sys.TellGrain(octx, id, new(PoisonPill))
					case c30OpKillAsk:
						_, err = sys.AskGrain(octx, id, new(PoisonPill), 4*time.Second)
					}
					cancel()
					es := "ok"
					if err != nil {
						es = "error: " + err.Error()
						if len(es) > 160 {
							es = es[:160]
						}
					}
					r.logf("n%d thread%d op%d %s(%s) end -> %s %s", th.Node, ti, oi, c30OpName[op.Kind], r.short(id.String()), es, reply)
					resCh <- c30Result{thread: ti, idx: oi, err: err, reply: reply, dur: time.Since(t0)}
				}
			}(ti, th)
		}
		close(start)
		wg.Wait()
		close(resCh)

		timeouts, opErrs, opOK := 0, 0, 0
		for res := range resCh {
			switch {
			case res.err == nil:
				opOK++
			case c30IsTimeout(res.err):
				timeouts++
			default:
				opErrs++
			}
		}

		// ---- settle: no deactivation in progress, no registry operation in flight
		settled := false
		deadline := time.Now().Add(15 * time.Second)
		calm := 0
		for time.Now().Before(deadline) {
			if fix.deact.Load() == 0 && fix.reg.inflight.Load() == 0 {
				calm++
				if calm >= 3 {
					settled = true
					break
				}
			} else {
				calm = 0
			}
			time.Sleep(2 * time.Millisecond)
		}
		r.quiet.Store(true)

		// ---- statistics and the non-triviality rule
		r.mu.Lock()
		violFP, violMsg := r.violFP, r.violMsg
		multiClaim := false
		for _, m := range r.claimers {
			if len(m) >= 2 {
				multiClaim = true
			}
		}
		failAfter, claimLost, sameNode := r.failAfter, r.claimLost, r.sameNode
		faultsHit, stallsHit, actFails := r.faultsHit, r.stallsHit, r.actFails
		r.mu.Unlock()
		if multiClaim || failAfter > 0 {
			x.NonTrivial()
		}
		x.Class(fmt.Sprintf("nodes_%d", c.Nodes))
		x.Class(fmt.Sprintf("idents_%d", c.Idents))
		if multiClaim {
			x.Class("claims_from_2plus_nodes")
		}
		if claimLost > 0 {
			x.Class("claim_lost_to_other_node")
		}
		if failAfter > 0 {
			x.Class("failure_between_claim_and_publish")
		}
		if faultsHit > 0 {
			x.Class("registry_fault_hit")
		}
		if stallsHit > 0 {
			x.Class("stall_hit")
		}
		if actFails > 0 {
			x.Class("onactivate_failure_hit")
		}
		if sameNode > 0 {
			x.Class("same_node_two_instances_observed")
		}
		if c.DeactUs > 0 {
			x.Class("slow_ondeactivate")
		}
		r.mu.Lock()
		for _, a := range r.anomaly {
			fam := a
			if i := strings.Index(fam, ":"); i >= 0 {
				fam = fam[:i]
			}
			x.Class("anomaly_" + fam)
		}
		r.mu.Unlock()
		if timeouts > 0 {
			x.Class("inconclusive_op_timeout")
		}
		if opErrs > 0 {
			x.Class("op_error_returned")
		}
		if opOK > 0 {
			x.Class("op_ok")
		}
		for _, th := range c.Threads {
			for _, op := range th.Ops {
				x.Class("op_" + c30OpName[op.Kind])
			}
		}
		fix.reg.umu.Lock()
		for k, n := range fix.reg.unexpected {
			if n > 0 {
				x.Class("fake_called_" + k)
			}
		}
		fix.reg.umu.Unlock()

		fpFor := func(key, fp string) string {
			r.mu.Lock()
			defer r.mu.Unlock()
			if a := r.anomaly[key]; a != "" {
				return a
			}
			return fp
		}
		fail := func(fp, format string, args ...any) {
			r.mu.Lock()
			hist := append([]string(nil), r.hist...)
			r.mu.Unlock()
			for _, h := range hist {
				x.Logf("%s", h)
			}
			x.Failf(fp, format, args...)
		}

		// ---- oracle 1: never two nodes at once (recorded at the insertion)
		if violFP != "" {
			fail(violFP, "%s", violMsg)
		}
		if !settled {
			x.Class("inconclusive_not_settled")
			return
		}
		if timeouts > 0 {
			// a timed-out call may have left work behind that the settle signal
			// cannot see (a remote handler still running): no end-state verdict
			return
		}

		// ---- oracle 2: after settle the registry names the holder
		stale := false
		for _, id := range idents {
			key := id.String()
			r.mu.Lock()
			hs := r.holderList(key)
			r.mu.Unlock()
			fix.reg.mu.Lock()
			rec := fix.reg.grains[key]
			fix.reg.mu.Unlock()
			switch {
			case len(hs) == 1 && rec == nil:
				fail(fpFor(key, "holder-without-record"), "after settle grain %s is active on node %d (activation #%d) but the registry has no record for it: any other node may now activate a second instance", r.short(key), hs[0].node, hs[0].act)
			case len(hs) == 1:
				want := fix.reg.views[hs[0].node].peer
				if rec.GetHost() != want.Host || int(rec.GetPort()) != want.RemotingPort {
					fail(fpFor(key, "record-names-other-node"), "after settle grain %s is active on node %d (%s:%d) but the registry names %s", r.short(key), hs[0].node, want.Host, want.RemotingPort, c30Owner(rec))
				}
				x.Class("settled_holder_registered")
			case len(hs) == 0 && rec != nil:
				stale = true
				x.Class("settled_stale_record_no_holder")
			case len(hs) == 0:
				x.Class("settled_no_holder_no_record")
			default:
				x.Class("settled_same_node_two_instances")
			}
		}
		_ = stale

		// ---- oracle 3: the identity is usable: a later send succeeds and leaves
		// exactly one registered holder (a stale record must be reclaimable)
		// Finite failure scripts are switched off; a node that always fails keeps
		// failing (unless a registry fault was injected: a failed roll-back may
		// then legitimately have left a record that names such a node), and the
		// probe comes from a node that can activate.
		if faultsHit == 0 {
			r.keepPermanent.Store(true)
		}
		probeNode := -1
		for i := 0; i < c.Nodes; i++ {
			n := (c.ProbeNode + i) % c.Nodes
			if c.ActFail[n] < c30Always || faultsHit > 0 {
				probeNode = n
				break
			}
		}
		if probeNode < 0 {
			x.Class("probe_skipped_every_node_always_fails")
			return
		}
		if r.keepPermanent.Load() {
			for n := 0; n < c.Nodes; n++ {
				if c.ActFail[n] >= c30Always {
					x.Class("probe_with_always_failing_node")
					break
				}
			}
		}
		psys := fix.sys[probeNode]
		for _, id := range idents {
			key := id.String()
			var lastErr error
			okReply := ""
			for attempt := 0; attempt < 3; attempt++ {
				pctx, cancel := context.WithTimeout(ctx, 20*time.Second)
				r.logf("probe: n%d ask(%s) attempt %d", probeNode, r.short(key), attempt)
				resp, err := psys.AskGrain(pctx, id, new(testpb.TestPing), 5*time.Second)
				cancel()
				if err == nil {
					if rp, ok := resp.(*testpb.Reply); ok {
						okReply = rp.GetContent()
					}
					lastErr = nil
					break
				}
				lastErr = err
				r.logf("probe: attempt %d failed: %v", attempt, err)
				if c30IsTimeout(err) {
					break
				}
			}
			if lastErr != nil {
				if c30IsTimeout(lastErr) {
					x.Class("inconclusive_probe_timeout")
					continue
				}
				fail(fpFor(key, "not-reclaimable"), "after settle, with registry faults and finite OnActivate failure scripts switched off, three AskGrain(%s) calls from node %d (which can activate) failed; last error: %v", r.short(key), probeNode, lastErr)
			}
			// the probe itself may have triggered a deactivation-free activation only
			r.mu.Lock()
			hs := r.holderList(key)
			vfp, vmsg := r.violFP, r.violMsg
			r.mu.Unlock()
			if vfp != "" {
				fail(vfp, "%s (during the probe)", vmsg)
			}
			fix.reg.mu.Lock()
			rec := fix.reg.grains[key]
			fix.reg.mu.Unlock()
			// the property is stated over NODES: every holder must sit on one node
			// (several instances on that one node are counted, not reported)
			hnodes := map[int]bool{}
			for _, h := range hs {
				hnodes[h.node] = true
			}
			if len(hnodes) != 1 {
				fail(fpFor(key, "probe-no-single-holder"), "after a successful AskGrain(%s) (reply %q) the holder set is %v", r.short(key), okReply, hs)
			}
			if len(hs) > 1 {
				x.Class("probe_same_node_two_instances")
			}
			want := fix.reg.views[hs[0].node].peer
			if rec == nil {
				fail(fpFor(key, "holder-without-record"), "after a successful probe grain %s is active on node %d but the registry has no record", r.short(key), hs[0].node)
			}
			if rec.GetHost() != want.Host || int(rec.GetPort()) != want.RemotingPort {
				fail(fpFor(key, "record-names-other-node"), "after a successful probe grain %s is active on node %d but the registry names %s", r.short(key), hs[0].node, c30Owner(rec))
			}
			fromHolder := false
			for _, h := range hs {
				if okReply == fmt.Sprintf("%d/%d", h.node, h.act) {
					fromHolder = true
				}
			}
			if !fromHolder {
				fail("reply-from-non-holder", "probe reply %q does not come from a holder %v", okReply, hs)
			}
			x.Class("probe_ok")
		}
	}
}

const c30RuleTail = "; non-trivial iff at least two different nodes issued an atomic claim (PutGrainIfAbsent) for the same identity, or an injected failure (registry fault or OnActivate failure) hit a node between its successful claim and its publish; distinct = distinct case (program + plans + noise profile)"

// activation races only: nothing ever deactivates, the registry never fails
func TestVF_C30_race(t *testing.T) {
	fix := c30Fixtures(t)
	if fix.err != nil {
		t.Fatalf("c30: cannot start the actor systems: %v", fix.err)
	}
	vfkit.Run(t, vfkit.Spec[c30Case]{
		ID: "C30", Unit: "race",
		Rule:       "case = 2-3 nodes, 2-6 threads pinned to nodes issuing 1-4 of {TellGrain, AskGrain, GrainIdentity(local/round-robin/random)} on 1-2 fresh grain identities, per-node OnActivate failure script, registry stall plan and noise profile" + c30RuleTail,
		Gen:        c30Gen(false),
		Exec:       c30Exec(fix),
		ReplayReps: 40,
	})
}

// the whole life cycle: deactivation requests and registry faults as well
func TestVF_C30_lifecycle(t *testing.T) {
	fix := c30Fixtures(t)
	if fix.err != nil {
		t.Fatalf("c30: cannot start the actor systems: %v", fix.err)
	}
	vfkit.Run(t, vfkit.Spec[c30Case]{
		ID: "C30", Unit: "lifecycle",
		Rule:       "case = 2-3 nodes, 2-6 threads pinned to nodes issuing 1-4 of {TellGrain, AskGrain, GrainIdentity(local/round-robin/random), PoisonPill via Tell/Ask (the grain deactivates; OnDeactivate takes a generated 0-20 ms and the instance is held until it returns)} on 1-2 fresh grain identities, per-node OnActivate failure script, registry fault plan (k-th operation of a kind from a node fails), stall plan and noise profile" + c30RuleTail,
		Gen:        c30Gen(true),
		Exec:       c30Exec(fix),
		ReplayReps: 40,
	})
}

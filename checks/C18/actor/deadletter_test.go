//go:build verif

package actor

import (
	"context"
	"fmt"
	"net"
	"sort"
	"strings"
	"sync"
	"sync/atomic"
	"testing"
	"time"

	"google.golang.org/protobuf/proto"
	"pgregory.net/rapid"

	"github.com/tochemey/goakt/v4/eventstream"
	"github.com/tochemey/goakt/v4/internal/address"
	inet "github.com/tochemey/goakt/v4/internal/net"
	"github.com/tochemey/goakt/v4/internal/vfkit"
	"github.com/tochemey/goakt/v4/internal/vfsched"
	"github.com/tochemey/goakt/v4/log"
	"github.com/tochemey/goakt/v4/remote"
	"github.com/tochemey/goakt/v4/test/data/testpb"
)

// ---------------------------------------------------------------------------
// C18: every message the runtime accepted but then dropped is published exactly
// once as a Deadletter event carrying the original message, sender and receiver,
// and the counts reported by the system match what was published.
//
// Drop causes exercised (in combination, with 1..4 concurrent senders):
//   full   - full non-blocking bounded / bounded-priority / bounded-stable-priority mailbox
//   unh    - ctx.Unhandled()
//   gone   - remote tell (real remoting on loopback, through the outbound coalescer) to a
//            name that never existed / an actor that has stopped on a second system
//   susp   - remote tell to an actor on the second system that supervision has suspended (its
//            error matched no directive); it is still in the actors tree and is never reinstated
//   batch  - coalesced remote batch to an endpoint that accepts the TCP connection and
//            closes it (whole batch fails -> coalesced failure drain on the sending system)
//
// Two systems A and B are started once per process; every case spawns fresh,
// uniquely named target actors. Each system has ONE permanent event-stream
// subscriber (subscribed right after Start, before any traffic) so that the
// cumulative number of Deadletter events can be compared with Metric().
// ---------------------------------------------------------------------------

const (
	c18FlagUnhandled = 1 << 0 // the receiving actor calls ctx.Unhandled() for this message
	c18FlagGate      = 1 << 1 // harness message that parks the actor inside Receive
	c18FlagFence     = 1 << 2 // harness message marking the end of a sender's traffic
	c18FlagFail      = 1 << 3 // harness message: the actor reports an error no supervisor directive matches (-> suspended)
)

// mailbox kinds
const (
	c18MbUnbounded = iota
	c18MbNonBlocking
	c18MbPriority
	c18MbStablePriority
)

var c18MbNames = []string{"unbounded", "nonblocking_bounded", "bounded_priority", "bounded_stable_priority"}

// target states
const (
	c18Live    = iota // running actor
	c18Stopped        // spawned on B, then stopped before any traffic
	c18Missing        // a name that never existed on B
	c18Hole           // an address on the endpoint that fails every batch
	c18Suspended      // spawned on B, then suspended by supervision (no matching directive) before any traffic; stays in the tree, never reinstated
)

var c18StateNames = []string{"live", "stopped", "missing", "failing-endpoint", "suspended"}

// c18Fault is an error type no supervisor directive is registered for: the default
// supervisor finds no directive (and no any-error directive) and suspends the actor.
type c18Fault struct{}

func (*c18Fault) Error() string { return "c18 fault without a directive" }

type c18Target struct {
	OnB        bool `json:"on_b"`  // hosted by system B (reached from A through remoting)
	State      int  `json:"state"` // c18Live..c18Hole (Stopped/Missing/Hole imply OnB)
	Mailbox    int  `json:"mailbox"`
	Capacity   int  `json:"capacity"`    // 1..4 (bounded kinds)
	Gated      bool `json:"gated"`       // live only: the actor is parked in Receive while the senders run
	SlowMicros int  `json:"slow_micros"` // live, ungated: handler sleeps this long per message
}

type c18Send struct {
	Target    int  `json:"target"`
	Unhandled bool `json:"unhandled"`
}

type c18Sender struct {
	Actor int       `json:"actor"` // -1 = no sender (package-level Tell), 0..2 = sender actor on A
	Sends []c18Send `json:"sends"`
}

type c18Case struct {
	Targets    []c18Target `json:"targets"`
	Senders    []c18Sender `json:"senders"`
	NoiseSeed  uint64      `json:"noise_seed"`
	NoiseProb  float64     `json:"noise_prob"`
	NoiseSleep int         `json:"noise_sleep"`
}

func c18Gen(t *rapid.T) c18Case {
	var c c18Case
	nt := rapid.IntRange(1, 4).Draw(t, "targets")
	for i := 0; i < nt; i++ {
		var tg c18Target
		switch rapid.IntRange(0, 10).Draw(t, "target_kind") {
		case 0, 1, 2, 3: // live on A
		case 4, 5: // live on B
			tg.OnB = true
		case 6:
			tg.OnB, tg.State = true, c18Stopped
		case 7:
			tg.OnB, tg.State = true, c18Missing
		case 10:
			tg.OnB, tg.State = true, c18Suspended
		default:
			tg.OnB, tg.State = true, c18Hole
		}
		if tg.State == c18Live {
			tg.Mailbox = rapid.SampledFrom([]int{c18MbNonBlocking, c18MbNonBlocking, c18MbPriority, c18MbStablePriority, c18MbUnbounded}).Draw(t, "mailbox")
			tg.Capacity = rapid.IntRange(1, 4).Draw(t, "capacity")
			if tg.Mailbox != c18MbUnbounded {
				tg.Gated = rapid.IntRange(0, 2).Draw(t, "gated") > 0
			}
			if !tg.Gated {
				tg.SlowMicros = rapid.SampledFrom([]int{0, 0, 20, 200, 1000}).Draw(t, "slow")
			}
		}
		c.Targets = append(c.Targets, tg)
	}
	ns := rapid.IntRange(1, 4).Draw(t, "senders")
	for i := 0; i < ns; i++ {
		s := c18Sender{Actor: rapid.IntRange(-1, 2).Draw(t, "sender_actor")}
		n := rapid.IntRange(1, 12).Draw(t, "sends")
		// senders concentrate on one target most of the time so that bounded mailboxes overflow
		focus := rapid.IntRange(0, nt-1).Draw(t, "focus")
		for j := 0; j < n; j++ {
			tgt := focus
			if rapid.IntRange(0, 3).Draw(t, "elsewhere") == 0 {
				tgt = rapid.IntRange(0, nt-1).Draw(t, "target")
			}
			s.Sends = append(s.Sends, c18Send{Target: tgt, Unhandled: rapid.IntRange(0, 3).Draw(t, "unhandled") == 0})
		}
		c.Senders = append(c.Senders, s)
	}
	c.NoiseProb = rapid.SampledFrom([]float64{0, 0.01, 0.05, 0.2}).Draw(t, "noise_prob")
	c.NoiseSleep = rapid.SampledFrom([]int{0, 50, 300}).Draw(t, "noise_sleep")
	c.NoiseSeed = rapid.Uint64().Draw(t, "noise_seed")
	return c
}

// ---- instrumented actors ----------------------------------------------------

type c18Rec struct {
	mu      sync.Mutex
	handled map[int64]int    // message id -> number of times Receive saw it
	from    map[int64]string // message id -> sender path seen by Receive
}

func (r *c18Rec) note(id int64, from string) {
	r.mu.Lock()
	r.handled[id]++
	r.from[id] = from
	r.mu.Unlock()
}

type c18Actor struct {
	rec     *c18Rec
	gate    chan struct{} // closed by the harness to let a gated actor go on
	entered chan struct{} // closed by the actor once it is parked
	started chan struct{} // closed when PostStart has been handled (it travels through the user mailbox)
	once    sync.Once
	slow    time.Duration
}

func (a *c18Actor) PreStart(*Context) error { return nil }
func (a *c18Actor) PostStop(*Context) error { return nil }
func (a *c18Actor) Receive(ctx *ReceiveContext) {
	switch m := ctx.Message().(type) {
	case *PostStart:
		close(a.started)
	case *testpb.TestSum:
		flags := m.GetB()
		if flags&c18FlagFail != 0 {
			ctx.Err(new(c18Fault))
			return
		}
		if flags&c18FlagGate != 0 {
			a.once.Do(func() { close(a.entered) })
			select {
			case <-a.gate:
			case <-time.After(90 * time.Second):
			}
			return
		}
		from := ""
		if s := ctx.Sender(); s != nil {
			from = pathString(s.Path())
		}
		a.rec.note(m.GetA(), from)
		if a.slow > 0 {
			time.Sleep(a.slow)
		}
		if flags&c18FlagUnhandled != 0 {
			ctx.Unhandled()
		}
	case *testpb.TestPing:
		ctx.Response(new(testpb.TestPong))
	}
}

// c18Nop is the behaviour of the sender actors on A (they only lend their identity).
type c18Nop struct{}

func (c18Nop) PreStart(*Context) error { return nil }
func (c18Nop) PostStop(*Context) error { return nil }
func (c18Nop) Receive(*ReceiveContext) {}

// c18FenceActor lives on B; a fence message arriving here proves that every message the same
// sender submitted earlier to B's endpoint has been through the inbound dispatch of B
// (one coalescer writer per destination, batches flushed one at a time, batch processed in order).
type c18FenceActor struct{}

var c18Fences sync.Map // fence id -> chan struct{}

func (c18FenceActor) PreStart(*Context) error { return nil }
func (c18FenceActor) PostStop(*Context) error { return nil }
func (c18FenceActor) Receive(ctx *ReceiveContext) {
	if m, ok := ctx.Message().(*testpb.TestSum); ok && m.GetB()&c18FlagFence != 0 {
		if ch, ok := c18Fences.Load(m.GetA()); ok {
			close(ch.(chan struct{}))
		}
	}
}

// ---- fixture ------------------------------------------------------------------

type c18Side struct {
	sys  *actorSystem
	port int
	sub  eventstream.Subscriber
	base int64 // Metric().DeadlettersCount() when the subscriber was attached (no traffic yet)
	seen int64 // Deadletter events drained from sub so far
}

type c18Fixture struct {
	a, b     c18Side
	senders  []*PID // sender actors on A
	fence    *PID   // fence actor on B
	holeLn   net.Listener
	holePort int
	err      error
}

var (
	c18FixOnce sync.Once
	c18Fix     c18Fixture
	c18Seq     atomic.Int64
	c18MsgID   atomic.Int64
)

func c18StartSystem(name string) (*actorSystem, int, error) {
	var lastErr error
	for attempt := 0; attempt < 5; attempt++ {
		port := inet.Get(1)[0]
		sys, err := NewActorSystem(name,
			WithLogger(log.DiscardLogger),
			WithAskTimeout(60*time.Second), // Metric() asks the dead-letter actor with this timeout; the machine is loaded
			WithRemote(remote.NewConfig("127.0.0.1", port)))
		if err != nil {
			return nil, 0, err
		}
		if err := sys.Start(context.Background()); err != nil {
			lastErr = err
			continue
		}
		return sys.(*actorSystem), port, nil
	}
	return nil, 0, lastErr
}

func c18Attach(side *c18Side) error {
	sub, err := side.sys.Subscribe()
	if err != nil {
		return err
	}
	side.sub = sub
	m := side.sys.Metric(context.Background())
	if m == nil {
		return fmt.Errorf("Metric() returned nil on a started system")
	}
	side.base = m.DeadlettersCount()
	return nil
}

func c18Fixtures(t *testing.T) *c18Fixture {
	c18FixOnce.Do(func() {
		f := &c18Fix
		a, portA, err := c18StartSystem("c18a")
		if err != nil {
			f.err = err
			return
		}
		b, portB, err := c18StartSystem("c18b")
		if err != nil {
			_ = a.Stop(context.Background())
			f.err = err
			return
		}
		f.a, f.b = c18Side{sys: a, port: portA}, c18Side{sys: b, port: portB}
		t.Cleanup(func() {
			_ = a.Stop(context.Background())
			_ = b.Stop(context.Background())
		})
		if f.err = c18Attach(&f.a); f.err != nil {
			return
		}
		if f.err = c18Attach(&f.b); f.err != nil {
			return
		}
		ctx := context.Background()
		for i := 0; i < 3; i++ {
			p, err := a.Spawn(ctx, fmt.Sprintf("c18-sender-%d", i), c18Nop{}, WithLongLived())
			if err != nil {
				f.err = err
				return
			}
			f.senders = append(f.senders, p)
		}
		if f.fence, f.err = b.Spawn(ctx, "c18-fence", c18FenceActor{}, WithLongLived()); f.err != nil {
			return
		}
		// the failing endpoint: owned by this process for its whole life, accepts and hangs up
		ln, err := net.Listen("tcp", "127.0.0.1:0")
		if err != nil {
			f.err = err
			return
		}
		f.holeLn, f.holePort = ln, ln.Addr().(*net.TCPAddr).Port
		go func() {
			for {
				conn, err := ln.Accept()
				if err != nil {
					return
				}
				_ = conn.Close()
			}
		}()
		t.Cleanup(func() { _ = ln.Close() })
	})
	return &c18Fix
}

// c18Event is one Deadletter event taken from a system's event stream.
type c18Event struct {
	onB      bool
	id       int64 // TestSum.A, or -1 when the payload is something else
	flags    int64
	sender   string
	receiver string
	reason   string
	payload  any
}

// drain moves everything the permanent subscriber has queued into out (Deadletter events only).
func (s *c18Side) drain(onB bool, out *[]c18Event) {
	for msg := range s.sub.Iterator() {
		dl, ok := msg.Payload().(*Deadletter)
		if !ok {
			continue
		}
		s.seen++
		ev := c18Event{onB: onB, id: -1, sender: pathString(dl.Sender()), receiver: pathString(dl.Receiver()), reason: dl.Reason(), payload: dl.Message()}
		if m, ok := dl.Message().(*testpb.TestSum); ok {
			ev.id, ev.flags = m.GetA(), m.GetB()
		}
		*out = append(*out, ev)
	}
}

// ---- execution ------------------------------------------------------------------

type c18Msg struct {
	id        int64
	sender    int // index into case senders
	target    int
	unhandled bool
	proto     *testpb.TestSum
	err       error // Tell result
}

type c18LiveT struct {
	pid   *PID // the local PID on its own system
	actor *c18Actor
	path  string
}

type c18Verdict struct {
	fp, msg      string // violation
	stall        string // the only signal was a time-out (three-strikes rule applies)
	inconclusive string
	classes      []string
	nontrivial   bool
}

func c18EffCapacity(tg c18Target) int {
	if tg.Mailbox == c18MbNonBlocking {
		// documented: rounded up to the next power of two, minimum two
		n := 2
		for n < tg.Capacity {
			n *= 2
		}
		return n
	}
	return tg.Capacity
}

func c18Prio(a, b any) bool {
	x, _ := a.(*testpb.TestSum)
	y, _ := b.(*testpb.TestSum)
	return x.GetA() > y.GetA()
}

func c18Run(x *vfkit.X, fix *c18Fixture, c c18Case) (v c18Verdict) {
	ctx, cancel := context.WithTimeout(context.Background(), 120*time.Second)
	defer cancel()
	seq := c18Seq.Add(1)
	var events []c18Event
	// anything still queued belongs to earlier cases
	fix.a.drain(false, &events)
	fix.b.drain(true, &events)
	events = events[:0]

	rec := &c18Rec{handled: map[int64]int{}, from: map[int64]string{}}
	lives := make([]*c18LiveT, len(c.Targets))
	tellTo := make([]*PID, len(c.Targets)) // what the senders on A use
	recvPath := make([]string, len(c.Targets))
	var gates []chan struct{}
	released := false
	release := func() {
		if !released {
			released = true
			for _, g := range gates {
				close(g)
			}
		}
	}
	var parked []*PID // suspended targets: never reinstated, only stopped when the case is over
	defer func() {
		release()
		for _, l := range lives {
			if l != nil {
				_ = l.pid.Shutdown(context.Background())
			}
		}
		for _, p := range parked {
			_ = p.Shutdown(context.Background())
		}
	}()

	usesB, usesHole := false, false
	for i, tg := range c.Targets {
		name := fmt.Sprintf("c18-%d-t%d", seq, i)
		side := &fix.a
		if tg.OnB {
			side = &fix.b
		}
		switch tg.State {
		case c18Live, c18Stopped, c18Suspended:
			act := &c18Actor{rec: rec, gate: make(chan struct{}), entered: make(chan struct{}), started: make(chan struct{}), slow: time.Duration(tg.SlowMicros) * time.Microsecond}
			opts := []SpawnOption{WithLongLived()}
			switch tg.Mailbox {
			case c18MbNonBlocking:
				opts = append(opts, WithMailbox(NewNonBlockingBoundedMailbox(tg.Capacity)))
			case c18MbPriority:
				opts = append(opts, WithMailbox(NewBoundedPriorityMailbox(tg.Capacity, c18Prio)))
			case c18MbStablePriority:
				opts = append(opts, WithMailbox(NewBoundedStablePriorityMailbox(tg.Capacity, c18Prio)))
			}
			pid, err := side.sys.Spawn(ctx, name, act, opts...)
			if err != nil {
				v.inconclusive = "spawn_failed"
				x.Logf("spawn %s: %v", name, err)
				return
			}
			recvPath[i] = pathString(pid.Path())
			select {
			case <-act.started: // PostStart no longer occupies a mailbox slot
			case <-time.After(20 * time.Second):
				_ = pid.Shutdown(context.Background())
				v.inconclusive = "start_timeout"
				return
			}
			if tg.State == c18Stopped {
				if err := pid.Shutdown(ctx); err != nil {
					v.inconclusive = "shutdown_failed"
					return
				}
			} else if tg.State == c18Suspended {
				parked = append(parked, pid)
				if err := Tell(ctx, pid, &testpb.TestSum{A: -2, B: c18FlagFail}); err != nil {
					v.inconclusive = "fail_trigger_refused"
					return
				}
				// supervision runs asynchronously: the remote tells are only sent once the suspension is visible
				deadline := time.Now().Add(20 * time.Second)
				for !pid.IsSuspended() {
					if time.Now().After(deadline) {
						v.inconclusive = "suspend_timeout"
						return
					}
					time.Sleep(time.Millisecond)
				}
				if node, ok := side.sys.actors.node(pid.getAddress().String()); !ok || node.value() == nil {
					v.inconclusive = "suspended_actor_not_in_tree"
					return
				}
			} else {
				lives[i] = &c18LiveT{pid: pid, actor: act, path: recvPath[i]}
				if tg.Gated {
					gates = append(gates, act.gate)
				}
			}
			if tg.OnB {
				tellTo[i] = newRemotePID(pid.getAddress(), fix.a.sys.remoting)
			} else {
				tellTo[i] = pid
			}
		case c18Missing:
			addr := address.New(name, fix.b.sys.Name(), "127.0.0.1", fix.b.port)
			recvPath[i] = addr.String()
			tellTo[i] = newRemotePID(addr, fix.a.sys.remoting)
		case c18Hole:
			addr := address.New(name, "c18hole", "127.0.0.1", fix.holePort)
			recvPath[i] = addr.String()
			tellTo[i] = newRemotePID(addr, fix.a.sys.remoting)
		}
		if tg.State == c18Hole {
			usesHole = true
		} else if tg.OnB {
			usesB = true
		}
	}

	// park the gated actors inside Receive
	for i, tg := range c.Targets {
		if tg.State == c18Live && tg.Gated {
			if err := Tell(ctx, lives[i].pid, &testpb.TestSum{A: -1, B: c18FlagGate}); err != nil {
				v.inconclusive = "gate_refused"
				return
			}
			select {
			case <-lives[i].actor.entered:
			case <-time.After(20 * time.Second):
				v.inconclusive = "gate_timeout"
				return
			}
		}
	}

	// the traffic
	msgs := make([][]*c18Msg, len(c.Senders))
	senderPath := make([]string, len(c.Senders))
	for si, s := range c.Senders {
		if s.Actor >= 0 {
			senderPath[si] = pathString(fix.senders[s.Actor].Path())
		}
		for _, sd := range s.Sends {
			m := &c18Msg{id: c18MsgID.Add(1), sender: si, target: sd.Target, unhandled: sd.Unhandled}
			var flags int64
			if sd.Unhandled {
				flags |= c18FlagUnhandled
			}
			m.proto = &testpb.TestSum{A: m.id, B: flags}
			msgs[si] = append(msgs[si], m)
		}
	}
	tell := func(si int, to *PID, m proto.Message) error {
		if a := c.Senders[si].Actor; a >= 0 {
			return fix.senders[a].Tell(ctx, to, m)
		}
		return Tell(ctx, to, m)
	}
	fenceB := newRemotePID(fix.fence.getAddress(), fix.a.sys.remoting)
	holeFenceAddr := address.New(fmt.Sprintf("c18-%d-holefence", seq), "c18hole", "127.0.0.1", fix.holePort)
	holeFence := newRemotePID(holeFenceAddr, fix.a.sys.remoting)
	type fenceInfo struct {
		id  int64
		ch  chan struct{}
		err error
	}
	bFences := make([]*fenceInfo, len(c.Senders))
	holeFences := make([]*fenceInfo, len(c.Senders))
	start := make(chan struct{})
	var wg sync.WaitGroup
	for si := range c.Senders {
		toB, toHole := false, false
		for _, m := range msgs[si] {
			tg := c.Targets[m.target]
			if tg.State == c18Hole {
				toHole = true
			} else if tg.OnB {
				toB = true
			}
		}
		if toB {
			f := &fenceInfo{id: c18MsgID.Add(1), ch: make(chan struct{})}
			c18Fences.Store(f.id, f.ch)
			defer c18Fences.Delete(f.id)
			bFences[si] = f
		}
		if toHole {
			holeFences[si] = &fenceInfo{id: c18MsgID.Add(1)}
		}
		wg.Add(1)
		go func(si int) {
			defer wg.Done()
			<-start
			for _, m := range msgs[si] {
				m.err = tell(si, tellTo[m.target], m.proto)
			}
			if f := bFences[si]; f != nil {
				f.err = tell(si, fenceB, &testpb.TestSum{A: f.id, B: c18FlagFence})
			}
			if f := holeFences[si]; f != nil {
				f.err = tell(si, holeFence, &testpb.TestSum{A: f.id, B: c18FlagFence})
			}
		}(si)
	}
	vfsched.SetNoise(c.NoiseSeed, c.NoiseProb, c.NoiseSleep)
	defer vfsched.SetNoise(0, 0, 0)
	close(start)
	wg.Wait()

	// remote traffic to B has been dispatched on B once every fence arrived there
	for _, f := range bFences {
		if f == nil {
			continue
		}
		if f.err != nil {
			v.inconclusive = "fence_refused"
			return
		}
		select {
		case <-f.ch:
		case <-time.After(30 * time.Second):
			v.inconclusive = "fence_b_timeout"
			return
		}
	}
	// traffic to the failing endpoint has been through the failure drain once the fences came back as dead letters
	wantHole := map[int64]bool{}
	for _, f := range holeFences {
		if f != nil {
			if f.err != nil {
					v.inconclusive = "fence_refused"
				return
			}
			wantHole[f.id] = true
		}
	}
	if len(wantHole) > 0 {
		deadline := time.Now().Add(20 * time.Second)
		scanned := 0
		for len(wantHole) > 0 {
			fix.a.drain(false, &events)
			for ; scanned < len(events); scanned++ {
				if ev := events[scanned]; ev.flags&c18FlagFence != 0 {
					delete(wantHole, ev.id)
				}
			}
			if len(wantHole) == 0 {
				break
			}
			if time.Now().After(deadline) {
					v.stall = fmt.Sprintf("%d fence message(s) sent to the failing endpoint never came back as dead letters within 20s", len(wantHole))
				return
			}
			time.Sleep(2 * time.Millisecond)
		}
	}

	// let the parked actors go and wait until every live target has drained its mailbox
	release()
	for i, l := range lives {
		if l == nil {
			continue
		}
		deadline := time.Now().Add(30 * time.Second)
		for !l.pid.mailbox.IsEmpty() {
			if time.Now().After(deadline) {
					v.inconclusive = "drain_timeout"
				return
			}
			time.Sleep(time.Millisecond)
		}
		if _, err := Ask(ctx, l.pid, new(testpb.TestPing), 30*time.Second); err != nil {
			v.inconclusive = "barrier_failed"
			x.Logf("barrier to target %d: %v", i, err)
			return
		}
	}
	vfsched.SetNoise(0, 0, 0)

	// the suspended targets must still be suspended: nothing reinstated them while the traffic arrived
	for _, p := range parked {
		if !p.IsSuspended() {
			v.inconclusive = "suspended_target_changed_state"
			return
		}
	}
	// counts reported by the systems, sandwiched around the drain of the event streams
	type sideCount struct{ m1, m2, seen int64 }
	counts := map[bool]*sideCount{}
	for _, onB := range []bool{false, true} {
		side := &fix.a
		if onB {
			side = &fix.b
		}
		m1 := side.sys.Metric(ctx)
		side.drain(onB, &events)
		seen := side.seen
		m2 := side.sys.Metric(ctx)
		if m1 == nil || m2 == nil {
			v.inconclusive = "metric_nil"
			return
		}
		counts[onB] = &sideCount{m1: m1.DeadlettersCount(), m2: m2.DeadlettersCount(), seen: side.base + seen}
	}

	// ---- the oracle -------------------------------------------------------------
	byID := map[int64][]c18Event{}
	perReceiver := map[string]int{}
	for _, ev := range events {
		perReceiver[ev.receiver]++
		if ev.id >= 0 {
			byID[ev.id] = append(byID[ev.id], ev)
		}
		x.Logf("deadletter onB=%v id=%d flags=%d sender=%s receiver=%s reason=%q", ev.onB, ev.id, ev.flags, ev.sender, ev.receiver, ev.reason)
	}
	fail := func(fp, format string, args ...any) c18Verdict {
		v.fp, v.msg = fp, fmt.Sprintf(format, args...)
		return v
	}
	causes := map[string]bool{}
	dropsPerTarget := make([]int, len(c.Targets))
	acceptedPerTarget := make([]int, len(c.Targets))
	rec.mu.Lock()
	defer rec.mu.Unlock()
	for si := range msgs {
		for _, m := range msgs[si] {
			tg := c.Targets[m.target]
			evs := byID[m.id]
			desc := fmt.Sprintf("message id=%d sender#%d(actor %d) -> target#%d(%s %s cap=%d gated=%v onB=%v) unhandled=%v",
				m.id, si, c.Senders[si].Actor, m.target, c18StateNames[tg.State], c18MbNames[tg.Mailbox], tg.Capacity, tg.Gated, tg.OnB, m.unhandled)
			if m.err != nil {
				// not accepted for delivery: the property is silent
				v.classes = append(v.classes, "tell_refused")
				x.Logf("%s: Tell returned %v", desc, m.err)
				continue
			}
			acceptedPerTarget[m.target]++
			handled := rec.handled[m.id]
			if handled > 1 {
				return fail("message-handled-twice", "%s was passed to Receive %d times", desc, handled)
			}
			want := 1
			cause := ""
			switch {
			case tg.State == c18Hole:
				cause = "batch"
			case tg.State == c18Suspended:
				cause = "suspended"
			case tg.State != c18Live:
				cause = "gone"
			case handled == 1 && m.unhandled:
				cause = "unhandled"
			case handled == 1:
				want = 0
			default:
				cause = "full"
				if tg.Mailbox == c18MbUnbounded {
					return fail("message-lost-without-deadletter-source", "%s: accepted by an unbounded mailbox but never passed to Receive (%d dead letters)", desc, len(evs))
				}
			}
			if cause == "full" {
				dropsPerTarget[m.target]++
				v.classes = append(v.classes, "full_"+c18MbNames[tg.Mailbox])
			}
			if cause != "" {
				causes[cause] = true
				if tg.OnB && tg.State == c18Live {
					v.classes = append(v.classes, "remote_"+cause)
				}
				if c.Senders[si].Actor < 0 {
					v.classes = append(v.classes, "anonymous_"+cause)
				}
			}
			if len(evs) != want {
				cls := "missing"
				if len(evs) > want {
					cls = "duplicate"
					if want == 0 {
						cls = "spurious"
					}
				}
				return fail("deadletter-"+cls+"-"+strings.ReplaceAll(firstNonEmpty(cause, "delivered"), " ", "-"),
					"%s: handled by Receive %d time(s); expected %d Deadletter event(s) (cause %q), observed %d: %+v", desc, handled, want, cause, len(evs), evs)
			}
			if want == 0 {
				continue
			}
			ev := evs[0]
			// which system publishes it: the one that dropped it
			wantOnB := tg.OnB && tg.State != c18Hole
			if ev.onB != wantOnB {
				return fail("deadletter-on-wrong-system-"+cause, "%s: Deadletter published on system B=%v, expected B=%v", desc, ev.onB, wantOnB)
			}
			if ev.receiver != recvPath[m.target] {
				return fail("deadletter-wrong-receiver-"+cause, "%s: Deadletter.Receiver()=%q, expected %q", desc, ev.receiver, recvPath[m.target])
			}
			if !c18SenderOK(fix, c.Senders[si].Actor, senderPath[si], ev) {
				return fail("deadletter-wrong-sender-"+cause, "%s: Deadletter.Sender()=%q, expected %q (or the no-sender address)", desc, ev.sender, senderPath[si])
			}
			got, ok := ev.payload.(*testpb.TestSum)
			if !ok || !proto.Equal(got, m.proto) {
				return fail("deadletter-wrong-message-"+cause, "%s: Deadletter.Message()=%v, expected %v", desc, ev.payload, m.proto)
			}
		}
	}
	// fences sent to the failing endpoint are dropped messages too: exactly one dead letter each
	for si, f := range holeFences {
		if f != nil && len(byID[f.id]) != 1 {
			return fail("deadletter-duplicate-batch", "fence message id=%d of sender#%d to the failing endpoint produced %d Deadletter events", f.id, si, len(byID[f.id]))
		}
	}
	// while a gated actor was parked nothing left its mailbox: the number of overflow drops is known exactly
	for i, tg := range c.Targets {
		if tg.State == c18Live && tg.Gated {
			want := acceptedPerTarget[i] - c18EffCapacity(tg)
			if want < 0 {
				want = 0
			}
			if want > 0 {
				v.classes = append(v.classes, "parked_overflow_exact_count")
			}
			if dropsPerTarget[i] != want {
				return fail("overflow-drop-count", "target#%d (%s capacity %d -> effective %d, parked in Receive): %d messages accepted by Tell, expected %d overflow drops, observed %d",
					i, c18MbNames[tg.Mailbox], tg.Capacity, c18EffCapacity(tg), acceptedPerTarget[i], want, dropsPerTarget[i])
			}
		}
	}
	// counts reported by the systems
	for _, onB := range []bool{false, true} {
		sc := counts[onB]
		if sc.seen < sc.m1 || sc.seen > sc.m2 {
			return fail("system-deadletter-count-mismatch", "system B=%v: Metric().DeadlettersCount() was %d before and %d after draining the event stream, but %d Deadletter events were published since the system started",
				onB, sc.m1, sc.m2, sc.seen)
		}
	}
	for i, l := range lives {
		if l == nil {
			continue
		}
		am := l.pid.Metric(ctx)
		if am == nil {
			continue
		}
		if int(am.DeadlettersCount()) != perReceiver[l.path] {
			return fail("actor-deadletter-count-mismatch", "target#%d %s: ActorMetric.DeadlettersCount()=%d but %d Deadletter events name it as receiver", i, l.path, am.DeadlettersCount(), perReceiver[l.path])
		}
	}

	// classes / non-triviality
	names := make([]string, 0, len(causes))
	for k := range causes {
		names = append(names, k)
		v.classes = append(v.classes, "cause_"+k)
	}
	sort.Strings(names)
	concurrentFull := false
	for i := range c.Targets {
		if dropsPerTarget[i] > 0 {
			n := 0
			for si := range msgs {
				for _, m := range msgs[si] {
					if m.target == i {
						n++
						break
					}
				}
			}
			if n >= 2 {
				concurrentFull = true
			}
		}
	}
	if concurrentFull {
		v.classes = append(v.classes, "concurrent_senders_on_full_mailbox")
	}
	if len(causes) >= 2 || concurrentFull {
		v.nontrivial = true
	}
	if len(causes) == 0 {
		v.classes = append(v.classes, "no_drop")
	}
	if usesB {
		v.classes = append(v.classes, "uses_remoting")
	}
	if usesHole {
		v.classes = append(v.classes, "uses_failing_endpoint")
	}
	return v
}

func firstNonEmpty(a, b string) string {
	if a != "" {
		return a
	}
	return b
}

// c18SenderOK: the Deadletter names the sending actor; for anonymous sends it names a
// no-sender address (the local NoSender PID of the publishing system, or address.NoSender()).
func c18SenderOK(fix *c18Fixture, actor int, want string, ev c18Event) bool {
	if actor >= 0 {
		return ev.sender == want
	}
	for _, ok := range []string{
		pathString(fix.a.sys.NoSender().Path()),
		pathString(fix.b.sys.NoSender().Path()),
		address.NoSender().String(),
		"",
	} {
		if ev.sender == ok {
			return true
		}
	}
	return false
}

func c18Exec(fix *c18Fixture) func(x *vfkit.X, c c18Case) {
	return func(x *vfkit.X, c c18Case) {
		if fix.err != nil {
			x.Class("infra_unavailable")
			x.Logf("fixture: %v", fix.err)
			return
		}
		v := c18Run(x, fix, c)
		if v.stall != "" {
			// the only signal is a stall: the identical case must stall in 3 of 3 executions
			for i := 0; i < 2 && v.stall != ""; i++ {
				x.Logf("stall (%s), re-executing the case", v.stall)
				v = c18Run(x, fix, c)
			}
			if v.stall != "" {
				x.Failf("coalesced-batch-failure-never-deadlettered", "3 of 3 executions: %s", v.stall)
			}
			x.Class("inconclusive_stall_not_reproduced")
		}
		if v.fp != "" {
			x.Failf(v.fp, "%s", v.msg)
		}
		if v.inconclusive != "" {
			x.Class("inconclusive_" + v.inconclusive)
			return
		}
		for _, cl := range v.classes {
			x.Class(cl)
		}
		if v.nontrivial {
			x.NonTrivial()
		}
	}
}

func TestVF_C18_deadletters(t *testing.T) {
	fix := c18Fixtures(t)
	vfkit.Run(t, vfkit.Spec[c18Case]{
		ID: "C18", Unit: "deadletters",
		Rule: "cases = 1..4 targets (live actor on system A or on system B behind real loopback remoting, with an unbounded / non-blocking bounded / bounded-priority / bounded-stable-priority mailbox of capacity 1..4, optionally parked inside Receive while the senders run, optionally a slow handler; an actor on B that has stopped; an actor on B that was suspended by supervision (error without a matching directive, confirmed with IsSuspended before the traffic starts, never reinstated); a name that never existed on B; an address on an endpoint that fails every coalesced batch) x 1..4 concurrent senders (anonymous or one of three sender actors on A) each sending 1..12 uniquely numbered messages, some of which the receiver answers with ctx.Unhandled(); schedule noise profile; every accepted message must be either passed to Receive once (and, if unhandled, dead-lettered once) or dead-lettered once on the system that dropped it, with the right sender, receiver and payload; Metric().DeadlettersCount() must equal the number of Deadletter events published; non-trivial = >= 2 different drop causes occurred in the case, or >= 2 senders hit a mailbox that overflowed; distinct = distinct cases",
		Gen:  c18Gen, Exec: c18Exec(fix),
		ReplayReps: 20,
	})
}

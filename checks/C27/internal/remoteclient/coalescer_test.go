//go:build verif

package remoteclient

import (
	"context"
	"encoding/json"
	"errors"
	"fmt"
	"os"
	"runtime"
	"sort"
	"strconv"
	"strings"
	"sync"
	"sync/atomic"
	"testing"
	"time"

	"google.golang.org/protobuf/proto"
	"pgregory.net/rapid"

	"github.com/tochemey/goakt/v4/internal/address"
	"github.com/tochemey/goakt/v4/internal/internalpb"
	inet "github.com/tochemey/goakt/v4/internal/net"
	"github.com/tochemey/goakt/v4/internal/vfkit"
	"github.com/tochemey/goakt/v4/remote"
	"github.com/tochemey/goakt/v4/test/data/testpb"
)

// ---------------------------------------------------------------------------
// C27 / wire: the real coalescer (and the real client.RemoteTell in front of
// it) + the real inet.Client against a real ProtoServer on loopback whose
// RemoteTellRequest handler follows a generated fault plan, one action per
// received batch.
//
//   A = tokens whose submit / RemoteTell returned nil          (accepted)
//   D = tokens the server handed to its handler and "delivered" (arrival order)
//   F = tokens passed to the CoalescingErrorHandler
//
//   (1) D restricted to one caller is strictly increasing (order, at most once)
//   (2) A is a subset of D u F once close() has returned
//   (3) a token in D and F is fine (response lost)
// ---------------------------------------------------------------------------

const (
	c27ActOK           = 0 // deliver, answer RemoteTellResponse
	c27ActErrReply     = 1 // do not deliver, answer internalpb.Error
	c27ActClose        = 2 // do not deliver, close the connection
	c27ActDeliverClose = 3 // deliver, then close the connection (response lost)
	c27ActDelay        = 4 // deliver, then keep the response until the client gave up (thorough only)
)

const (
	c27CtxBackground = 0
	c27CtxLong       = 1 // deadline far away
	c27CtxCancelled  = 2 // already cancelled when the call is made
	c27CtxShort      = 3 // 1..20 ms deadline per call
)

type c27Caller struct {
	N       int `json:"n"`
	Ctx     int `json:"ctx"`
	ShortMs int `json:"short_ms,omitempty"`
	Yield   int `json:"yield"` // 0: none; k>0: Gosched after every k-th call; k<0: sleep -k*20us after every call
}

type c27Case struct {
	Via          string      `json:"via"` // "coalescer" (submit) | "client" (RemoteTell)
	MaxBatch     int         `json:"max_batch"`
	Callers      []c27Caller `json:"callers"`
	Plan         []int       `json:"plan"`          // action of the i-th batch the server receives; batches beyond the plan are OK
	Gate         int         `json:"gate"`          // index of the batch whose handler is held until the harness releases it; -1 none
	CloseAfter   int         `json:"close_after"`   // close is initiated once this many calls have returned (clamped, see exec)
	Quiesce      bool        `json:"quiesce"`       // close after all callers: first wait until every accepted token is accounted for
	ReleaseFirst bool        `json:"release_first"` // release the gate before (true) or after (false) close() has closed done
}

func c27Gen(t *rapid.T) c27Case {
	var c c27Case
	c.Via = rapid.SampledFrom([]string{"coalescer", "coalescer", "client"}).Draw(t, "via")
	c.MaxBatch = rapid.SampledFrom([]int{1, 2, 4, 8}).Draw(t, "max_batch")
	nc := rapid.IntRange(1, 4).Draw(t, "callers")
	total := 0
	for i := 0; i < nc; i++ {
		var cl c27Caller
		cl.N = rapid.OneOf(rapid.IntRange(1, 40), rapid.SampledFrom([]int{1, 2, c.MaxBatch, c.MaxBatch + 1, 4*c.MaxBatch + 1, 4*c.MaxBatch + 2, 40})).Draw(t, "n")
		if cl.N > 40 {
			cl.N = 40
		}
		cl.Ctx = rapid.SampledFrom([]int{c27CtxBackground, c27CtxBackground, c27CtxLong, c27CtxCancelled, c27CtxShort}).Draw(t, "ctx")
		if cl.Ctx == c27CtxShort {
			cl.ShortMs = rapid.IntRange(1, 20).Draw(t, "short_ms")
		}
		cl.Yield = rapid.SampledFrom([]int{0, 0, 1, 3, -1, -5}).Draw(t, "yield")
		total += cl.N
		c.Callers = append(c.Callers, cl)
	}
	acts := []int{c27ActOK, c27ActOK, c27ActOK, c27ActErrReply, c27ActClose, c27ActDeliverClose}
	np := rapid.IntRange(0, 10).Draw(t, "plan_n")
	for i := 0; i < np; i++ {
		c.Plan = append(c.Plan, rapid.SampledFrom(acts).Draw(t, "act"))
	}
	// one delayed batch costs the full 5 s flush timeout: thorough tier only, about one case in 1000
	// (ten fair coins: rapid's integer generators are biased towards small values)
	if vfkit.Thorough() && np > 0 {
		all := true
		for _, b := range rapid.SliceOfN(rapid.Bool(), 10, 10).Draw(t, "delay_coins") {
			all = all && b
		}
		if all {
			c.Plan[rapid.IntRange(0, np-1).Draw(t, "delay_at")] = c27ActDelay
		}
	}
	c.Gate = rapid.SampledFrom([]int{-1, -1, 0, 0, 0, 1, 2}).Draw(t, "gate")
	c.CloseAfter = rapid.OneOf(rapid.IntRange(0, total), rapid.SampledFrom([]int{0, 1, c.MaxBatch, c.MaxBatch + 1, 2 * c.MaxBatch, 4 * c.MaxBatch, 4*c.MaxBatch + 1, total})).Draw(t, "close_after")
	c.Quiesce = rapid.Bool().Draw(t, "quiesce")
	c.ReleaseFirst = rapid.IntRange(0, 3).Draw(t, "release_first") == 0
	return c
}

// ---- the faulty server (one per test process) -------------------------------

type c27State struct {
	nonce string
	c     c27Case

	mu          sync.Mutex
	cond        *sync.Cond
	delivered   []string          // D, arrival order
	batches     []int             // size of every batch the handler saw
	failedNow   map[string]bool   // F decoded inside the error handler (signalling only)
	retained    [][]*internalpb.RemoteMessage
	failErrs    []string
	returned    int               // calls that have returned
	results     map[string]c27Res // per token
	nextBatch   int
	gateReached bool
	seenCo      map[*coalescer]bool

	gateCh chan struct{}
	endCh  chan struct{}
}

type c27Res struct {
	tick     int64
	accepted bool
	err      string
}

var (
	c27SrvOnce sync.Once
	c27SrvHost = "127.0.0.1"
	c27SrvPort int
	c27SrvErr  error
	c27Cur     atomic.Pointer[c27State]
	c27Seq     atomic.Int64
	c27Codec   = remote.NewProtoSerializer()
)

func c27Token(m *internalpb.RemoteMessage) (string, bool) {
	if m == nil {
		return "", false
	}
	v, err := c27Codec.Deserialize(m.GetMessage())
	if err != nil {
		return "", false
	}
	r, ok := v.(*testpb.Reply)
	if !ok {
		return "", false
	}
	return r.GetContent(), true
}

func c27Handle(_ context.Context, _ inet.Connection, req proto.Message) (proto.Message, error) {
	r, ok := req.(*internalpb.RemoteTellRequest)
	if !ok {
		return nil, errors.New("c27: unexpected request type")
	}
	st := c27Cur.Load()
	toks := make([]string, 0, len(r.GetRemoteMessages()))
	for _, m := range r.GetRemoteMessages() {
		if tok, ok := c27Token(m); ok {
			toks = append(toks, tok)
		} else {
			toks = append(toks, "?undecodable")
		}
	}
	if st == nil || len(toks) == 0 || !strings.HasPrefix(toks[0], st.nonce+"|") {
		return new(internalpb.RemoteTellResponse), nil // not ours (stale): swallow
	}
	st.mu.Lock()
	idx := st.nextBatch
	st.nextBatch++
	st.batches = append(st.batches, len(toks))
	act := c27ActOK
	if idx < len(st.c.Plan) {
		act = st.c.Plan[idx]
	}
	gated := idx == st.c.Gate
	if gated {
		st.gateReached = true
		st.cond.Broadcast()
	}
	st.mu.Unlock()
	if gated {
		select {
		case <-st.gateCh:
		case <-st.endCh:
		}
	}
	deliver := func() {
		st.mu.Lock()
		st.delivered = append(st.delivered, toks...)
		st.cond.Broadcast()
		st.mu.Unlock()
	}
	switch act {
	case c27ActErrReply:
		return &internalpb.Error{Code: internalpb.Code_CODE_UNAVAILABLE, Message: "c27 planned failure"}, nil
	case c27ActClose:
		return nil, errors.New("c27 planned close")
	case c27ActDeliverClose:
		deliver()
		return nil, errors.New("c27 planned close after delivery")
	case c27ActDelay:
		deliver()
		// hold the response until the client reported the batch as failed (its own flush deadline fired)
		giveUp := time.After(20 * time.Second)
		for {
			st.mu.Lock()
			failed := st.failedNow[toks[0]]
			st.mu.Unlock()
			if failed {
				break
			}
			select {
			case <-st.endCh:
				return new(internalpb.RemoteTellResponse), nil
			case <-giveUp:
				return new(internalpb.RemoteTellResponse), nil
			case <-time.After(5 * time.Millisecond):
			}
		}
		return new(internalpb.RemoteTellResponse), nil
	default:
		deliver()
		return new(internalpb.RemoteTellResponse), nil
	}
}

func c27Server() error {
	c27SrvOnce.Do(func() {
		ps, err := inet.NewProtoServer("127.0.0.1:0", inet.WithProtoHandler("internalpb.RemoteTellRequest", c27Handle))
		if err != nil {
			c27SrvErr = err
			return
		}
		if err := ps.Listen(); err != nil {
			c27SrvErr = err
			return
		}
		c27SrvPort = ps.ListenAddr().Port
		go func() { _ = ps.Serve() }()
	})
	return c27SrvErr
}

func (st *c27State) errHandler(_ string, msgs []*internalpb.RemoteMessage, err error) {
	st.mu.Lock()
	// a real handler (actor.enqueueCoalescedFailure) keeps the slice and reads it later: so do we
	st.retained = append(st.retained, msgs)
	if err != nil {
		st.failErrs = append(st.failErrs, err.Error())
	} else {
		st.failErrs = append(st.failErrs, "<nil error>")
	}
	for _, m := range msgs {
		if tok, ok := c27Token(m); ok {
			st.failedNow[tok] = true
		}
	}
	st.cond.Broadcast()
	st.mu.Unlock()
}

// waitFor blocks until pred holds (checked under st.mu) or the cap expires; it reports whether pred held.
func (st *c27State) waitFor(limit time.Duration, pred func() bool) bool {
	deadline := time.Now().Add(limit)
	timer := time.AfterFunc(limit, func() { st.mu.Lock(); st.cond.Broadcast(); st.mu.Unlock() })
	defer timer.Stop()
	st.mu.Lock()
	defer st.mu.Unlock()
	for !pred() {
		if !time.Now().Before(deadline) {
			return false
		}
		st.cond.Wait()
	}
	return true
}

func c27WaitCh(ch <-chan struct{}, limit time.Duration) bool {
	select {
	case <-ch:
		return true
	case <-time.After(limit):
		return false
	}
}

func c27Drain(co *coalescer) []string {
	var out []string
	if co == nil {
		return out
	}
	for {
		select {
		case m := <-co.in:
			tok, _ := c27Token(m)
			out = append(out, tok)
		default:
			return out
		}
	}
}

const (
	fpC27CloseDrop = "close-drops-queued-beyond-maxbatch"
	fpC27CloseRace = "submit-racing-close-accepted-then-lost"
)

func c27Exec(x *vfkit.X, c c27Case) {
	if err := c27Server(); err != nil {
		x.Class("infra_unavailable")
		x.Logf("server: %v", err)
		return
	}
	st := &c27State{
		nonce:     "c27-" + strconv.FormatInt(c27Seq.Add(1), 10),
		c:         c,
		failedNow: map[string]bool{},
		results:   map[string]c27Res{},
		seenCo:    map[*coalescer]bool{},
		gateCh:    make(chan struct{}),
		endCh:     make(chan struct{}),
	}
	st.cond = sync.NewCond(&st.mu)
	c27Cur.Store(st)
	var endOnce, gateOnce sync.Once
	end := func() { endOnce.Do(func() { close(st.endCh) }) }
	release := func() { gateOnce.Do(func() { close(st.gateCh) }) }
	defer func() { release(); end(); c27Cur.Store(nil) }()

	var clock atomic.Int64
	var closeReturned atomic.Bool
	dest := address.FormatHostPort(c27SrvHost, c27SrvPort)

	total := 0
	for _, cl := range c.Callers {
		total += cl.N
	}

	// ---- the unit under test --------------------------------------------------
	var (
		co      *coalescer // Via=coalescer: fixed; Via=client: resolved when close starts
		cl      *client
		nc      *inet.Client
		submit  func(ctx context.Context, tok string) error
		doClose func()
	)
	from := address.New("c27-sender", "c27sys", c27SrvHost, 1)
	to := address.New("c27-target", "c27sys", c27SrvHost, c27SrvPort)
	if c.Via == "coalescer" {
		nc = inet.NewClient(dest, inet.WithMaxIdleConns(2))
		co = newCoalescer(dest, nc, coalescingConfig{maxBatch: c.MaxBatch, errHandler: st.errHandler})
		submit = func(ctx context.Context, tok string) error {
			payload, err := c27Codec.Serialize(&testpb.Reply{Content: tok})
			if err != nil {
				panic(err)
			}
			return co.submit(ctx, &internalpb.RemoteMessage{Sender: from.String(), Receiver: to.String(), Message: payload})
		}
		doClose = func() { co.close() }
	} else {
		cl = NewClient(WithSendCoalescing(c.MaxBatch), WithCoalescingErrorHandler(st.errHandler), WithClientMaxIdleConns(2)).(*client)
		submit = func(ctx context.Context, tok string) error {
			// remember every coalescer this client ever creates: Close() racing with the
			// creation of a coalescer forgets it (map reset) while its writer keeps running,
			// and the harness has to stop that writer before it can judge
			if cur := cl.getCoalescer(to.Host(), to.Port()); cur != nil {
				st.mu.Lock()
				st.seenCo[cur] = true
				st.mu.Unlock()
			}
			return cl.RemoteTell(ctx, from, to, &testpb.Reply{Content: tok})
		}
		doClose = func() { cl.Close() }
	}

	// ---- callers ----------------------------------------------------------------
	start := make(chan struct{})
	var wg sync.WaitGroup
	for ci, spec := range c.Callers {
		wg.Add(1)
		go func(ci int, spec c27Caller) {
			defer wg.Done()
			<-start
			for seq := 0; seq < spec.N; seq++ {
				if closeReturned.Load() {
					// "after calling Close, the client should not be used for new requests"
					st.mu.Lock()
					st.returned += spec.N - seq
					st.cond.Broadcast()
					st.mu.Unlock()
					return
				}
				tok := fmt.Sprintf("%s|%d|%d", st.nonce, ci, seq)
				ctx := context.Background()
				cancel := func() {}
				switch spec.Ctx {
				case c27CtxLong:
					ctx, cancel = context.WithTimeout(ctx, 5*time.Minute)
				case c27CtxCancelled:
					ctx, cancel = context.WithCancel(ctx)
					cancel()
				case c27CtxShort:
					ctx, cancel = context.WithTimeout(ctx, time.Duration(spec.ShortMs)*time.Millisecond)
				}
				err := submit(ctx, tok)
				tick := clock.Add(1)
				cancel()
				res := c27Res{tick: tick, accepted: err == nil}
				if err != nil {
					res.err = err.Error()
				}
				st.mu.Lock()
				st.results[tok] = res
				st.returned++
				st.cond.Broadcast()
				st.mu.Unlock()
				switch {
				case spec.Yield > 0 && (seq+1)%spec.Yield == 0:
					runtime.Gosched()
				case spec.Yield < 0:
					time.Sleep(time.Duration(-spec.Yield) * 20 * time.Microsecond)
				}
			}
		}(ci, spec)
	}
	callersDone := make(chan struct{})
	go func() { wg.Wait(); close(callersDone) }()
	close(start)

	stall := func(what string) {
		// a completion signal did not arrive within its cap: never a verdict
		x.Class("inconclusive_stall_" + what)
		x.Logf("stall waiting for %s", what)
		release()
		end()
		closeReturned.Store(true)
		go doClose()
		c27WaitCh(callersDone, 30*time.Second)
	}

	// With the gate held the writer is stuck in one flush: callers can complete
	// 1 (in flight) + 4*maxBatch (queue) calls before they block, so the trigger
	// must not ask for more than that.
	k := c.CloseAfter
	if k > total {
		k = total
	}
	if c.Gate >= 0 && k > 1+4*c.MaxBatch {
		k = 1 + 4*c.MaxBatch
	}
	afterAll := k >= total
	if !st.waitFor(60*time.Second, func() bool { return st.returned >= k }) {
		stall("trigger")
		return
	}
	if afterAll && c.Gate < 0 {
		if !c27WaitCh(callersDone, 60*time.Second) {
			stall("callers")
			return
		}
		if c.Quiesce {
			// steady state: every accepted token has left the queue (delivered or reported) before close
			quiet := st.waitFor(10*time.Second, func() bool {
				for tok, r := range st.results {
					if r.accepted && !st.failedNow[tok] && !c27Has(st.delivered, tok) {
						return false
					}
				}
				return true
			})
			if quiet {
				x.Class("closed_quiescent")
			} else {
				x.Class("quiesce_wait_expired")
			}
		}
	}

	// ---- close ------------------------------------------------------------------
	if cl != nil {
		co, _ = cl.coalescers.Get(dest)
	}
	st.mu.Lock()
	pendingAtClose := 0
	for tok, r := range st.results {
		if r.accepted && !st.failedNow[tok] && !c27Has(st.delivered, tok) {
			pendingAtClose++
		}
	}
	gateReached := st.gateReached
	st.mu.Unlock()
	tClose := clock.Add(1)
	closeDone := make(chan struct{})
	if c.ReleaseFirst {
		release()
	}
	go func() { doClose(); closeReturned.Store(true); close(closeDone) }()
	if !c.ReleaseFirst {
		if co != nil && !c27WaitCh(co.done, 30*time.Second) {
			stall("done")
			return
		}
		release()
	}
	closeCap := 60 * time.Second
	for _, a := range c.Plan {
		if a == c27ActDelay {
			closeCap = 120 * time.Second
		}
	}
	if !c27WaitCh(closeDone, closeCap) {
		stall("close")
		return
	}
	if !c27WaitCh(callersDone, 60*time.Second) {
		stall("callers_after_close")
		return
	}
	end()
	// callers racing Close may have created further coalescers (after the map reset, or
	// between Close's Range and its Reset, which leaves a running writer nobody owns): stop them all
	leftover := c27Drain(co)
	if cl != nil {
		if cur, ok := cl.coalescers.Get(dest); ok {
			st.mu.Lock()
			st.seenCo[cur] = true
			st.mu.Unlock()
		}
		st.mu.Lock()
		var others []*coalescer
		for o := range st.seenCo {
			if o != co {
				others = append(others, o)
			}
		}
		st.mu.Unlock()
		for _, o := range others {
			select {
			case <-o.done:
			default:
				x.Class("coalescer_created_during_close")
			}
			o.close()
			leftover = append(leftover, c27Drain(o)...)
		}
		cl.Close()
	}
	if nc != nil {
		_ = nc.Close()
	}

	// ---- judge ------------------------------------------------------------------
	st.mu.Lock()
	defer st.mu.Unlock()
	x.Class("via_" + c.Via)
	x.Class(fmt.Sprintf("max_batch_%d", c.MaxBatch))
	x.Logf("case %s: batches=%v plan=%v gate=%d(reached=%v) k=%d pending_at_close=%d leftover=%d handler_calls=%d errs=%v",
		st.nonce, st.batches, c.Plan, c.Gate, gateReached, k, pendingAtClose, len(leftover), len(st.retained), c27Uniq(st.failErrs))

	// F as an asynchronous consumer of the handler argument sees it
	failed := map[string]bool{}
	for _, sl := range st.retained {
		for i, m := range sl {
			tok, ok := c27Token(m)
			if !ok {
				x.Failf("error-handler-slice-corrupted", "entry %d of a slice of %d messages passed to the CoalescingErrorHandler is nil or undecodable when read after the handler returned (handlers may retain their argument)", i, len(sl))
			}
			failed[tok] = true
		}
	}

	// (1) order / at most once, per caller
	last := map[int]int{}
	seen := map[string]bool{}
	for _, tok := range st.delivered {
		parts := strings.Split(tok, "|")
		if len(parts) != 3 || parts[0] != st.nonce {
			x.Failf("delivered-unknown-message", "the server received %q which no caller sent in this case", tok)
		}
		ci, _ := strconv.Atoi(parts[1])
		seq, _ := strconv.Atoi(parts[2])
		if ci < 0 || ci >= len(c.Callers) || seq < 0 || seq >= c.Callers[ci].N {
			x.Failf("delivered-unknown-message", "the server received %q which no caller sent in this case", tok)
		}
		if seen[tok] {
			x.Failf("delivered-twice", "message %q was delivered to the server twice (maxBatch=%d, batches=%v)", tok, c.MaxBatch, st.batches)
		}
		seen[tok] = true
		if prev, ok := last[ci]; ok && seq < prev {
			x.Failf("order-violated-per-caller", "caller %d: message #%d reached the server after #%d (maxBatch=%d via=%s batches=%v)", ci, seq, prev, c.MaxBatch, c.Via, st.batches)
		}
		last[ci] = seq
	}
	for _, n := range st.batches {
		if n > c.MaxBatch {
			x.Failf("batch-larger-than-maxbatch", "a wire batch carried %d messages, maxBatch=%d", n, c.MaxBatch)
		}
	}

	// (2) nothing accepted disappears
	inLeft := map[string]bool{}
	for _, tok := range leftover {
		inLeft[tok] = true
	}
	var lost, lostQueued, lostVanished []string
	lostAfterClose := 0
	accepted, rejected := 0, 0
	for tok, r := range st.results {
		if !r.accepted {
			rejected++
			switch {
			case strings.Contains(r.err, "closed"):
				x.Class("rejected_closed")
			case strings.Contains(r.err, "context") || strings.Contains(r.err, "backpressure"):
				x.Class("rejected_ctx")
			default:
				x.Class("rejected_other")
			}
			if seen[tok] {
				x.Class("rejected_but_delivered")
			}
			continue
		}
		accepted++
		if seen[tok] || failed[tok] {
			if seen[tok] && failed[tok] {
				x.Class("delivered_and_reported")
			}
			continue
		}
		lost = append(lost, tok)
		if inLeft[tok] {
			lostQueued = append(lostQueued, tok)
			if r.tick > tClose {
				lostAfterClose++
			}
		} else {
			lostVanished = append(lostVanished, tok)
		}
	}
	sort.Strings(lost)
	if len(lostVanished) > 0 {
		sort.Strings(lostVanished)
		x.Failf("accepted-message-vanished", "%d accepted message(s) were neither delivered, nor passed to the error handler, nor left in the queue: %v (via=%s maxBatch=%d batches=%v plan=%v handler_calls=%d)",
			len(lostVanished), c27Head(lostVanished), c.Via, c.MaxBatch, st.batches, c.Plan, len(st.retained))
	}
	if len(lostQueued) > 0 {
		x.Class("leftover_in_queue_after_close")
		fp := fpC27CloseDrop
		if lostAfterClose > 0 {
			fp = fpC27CloseRace
		}
		// VF_C27_STRICT=1 (used to validate fix diffs): report even while listed as known
		if path := os.Getenv("VF_C27_STRICT"); strings.HasPrefix(path, "/") {
			// fix validation only: keep the evidence of every leftover, the scratch run directory is deleted
			if f, err := os.OpenFile(path, os.O_APPEND|os.O_CREATE|os.O_WRONLY, 0o644); err == nil {
				cj, _ := json.Marshal(c)
				fmt.Fprintf(f, "%s lostQueued=%d lostAfterClose=%d pendingAtClose=%d batches=%v case=%s\n", fp, len(lostQueued), lostAfterClose, pendingAtClose, st.batches, cj)
				_ = f.Close()
			}
		}
		if x.Known(fp) && os.Getenv("VF_C27_STRICT") == "" {
			x.Class("known_" + fp + "_tolerated")
		} else if fp == fpC27CloseDrop {
			x.Failf(fp, "close() returned with %d accepted message(s) still sitting in the coalescer queue: not sent, not passed to the error handler (all of them were accepted before close() was called; %d were pending at that moment, maxBatch=%d, queue capacity %d, via=%s, batches seen by the server %v): %v",
				len(lostQueued), pendingAtClose, c.MaxBatch, 4*c.MaxBatch, c.Via, st.batches, c27Head(lost))
		} else {
			x.Failf(fp, "close() returned with %d accepted message(s) still sitting in the coalescer queue: not sent, not passed to the error handler; %d of them were accepted by a submit that returned nil after close() had been called (maxBatch=%d, via=%s, batches %v): %v",
				len(lostQueued), lostAfterClose, c.MaxBatch, c.Via, st.batches, c27Head(lost))
		}
	}

	// ---- evidence ---------------------------------------------------------------
	if len(st.retained) > 0 {
		x.Class("failed_batch")
	}
	if pendingAtClose > 0 {
		x.Class("close_with_pending")
	}
	if pendingAtClose > c.MaxBatch {
		x.Class("close_with_pending_gt_maxbatch")
	}
	if gateReached {
		x.Class("gate_reached")
	}
	if afterAll {
		x.Class("close_after_all_callers")
	} else {
		x.Class("close_while_submitting")
	}
	for i, a := range c.Plan {
		if i < len(st.batches) {
			x.Class(fmt.Sprintf("act_%d_executed", a))
		}
	}
	if rejected > 0 {
		x.Class("some_rejected")
	}
	if accepted > 0 && (len(st.retained) > 0 || pendingAtClose > 0) {
		x.NonTrivial()
	}
}

func c27Has(list []string, tok string) bool {
	for _, v := range list {
		if v == tok {
			return true
		}
	}
	return false
}

func c27Head(l []string) []string {
	if len(l) > 12 {
		return append(append([]string{}, l[:12]...), fmt.Sprintf("... %d more", len(l)-12))
	}
	return l
}

func c27Uniq(l []string) []string {
	m := map[string]int{}
	for _, v := range l {
		if len(v) > 60 {
			v = v[:60]
		}
		m[v]++
	}
	out := make([]string, 0, len(m))
	for k, n := range m {
		out = append(out, fmt.Sprintf("%dx %s", n, k))
	}
	sort.Strings(out)
	return out
}

func TestVF_C27_wire(t *testing.T) {
	vfkit.Run(t, vfkit.Spec[c27Case]{
		ID: "C27", Unit: "wire",
		Rule: "cases = maxBatch in {1,2,4,8} x 1..4 concurrent callers x 1..40 messages each (contexts: background / long deadline / already cancelled / 1..20 ms) through the real coalescer.submit or the real client.RemoteTell, real inet.Client, real ProtoServer on loopback whose handler follows a generated plan per received batch (deliver+ok | error reply | close without delivering | deliver then close | thorough only: deliver and withhold the reply past the 5 s flush deadline); optionally one batch is held at the server so the queue fills; close() of the coalescer / client is initiated after a generated number of calls returned (while callers still submit, with callers blocked on a full queue, or after all callers finished with or without waiting for quiescence); judged after close() returned: per caller the delivered tokens are strictly increasing, every accepted token is delivered or was passed to the error handler (read from the retained handler slices). non-trivial = at least one accepted message and (a batch failed or close started with >= 1 accepted message neither delivered nor reported); distinct = distinct case",
		Gen:  c27Gen, Exec: c27Exec,
		ReplayReps: 20,
	})
}

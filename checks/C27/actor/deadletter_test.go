//go:build verif

package actor

import (
	"context"
	"errors"
	"fmt"
	"runtime"
	"strconv"
	"strings"
	"sync"
	"sync/atomic"
	"testing"
	"time"

	"google.golang.org/protobuf/proto"
	"pgregory.net/rapid"

	"github.com/tochemey/goakt/v4/eventstream"
	"github.com/tochemey/goakt/v4/internal/address"
	"github.com/tochemey/goakt/v4/internal/internalpb"
	inet "github.com/tochemey/goakt/v4/internal/net"
	"github.com/tochemey/goakt/v4/internal/vfkit"
	"github.com/tochemey/goakt/v4/log"
	"github.com/tochemey/goakt/v4/remote"
	"github.com/tochemey/goakt/v4/test/data/testpb"
)

// ---------------------------------------------------------------------------
// C27 / actor: two real actor systems with remoting on loopback plus a faulty
// ProtoServer that plays a third node. Senders on system A use Tell /
// PID.Tell on remote PIDs (the production path: client.RemoteTell ->
// coalescer -> enqueueCoalescedFailure -> drainCoalescedFailures -> dead-letter
// actor -> event stream).
//
//   every accepted message is either received by the target (real actor on B /
//   handler of the faulty node) or shows up as a Deadletter event on A;
//   per sender and target the received messages are in send order, no duplicate.
//
// Completion is decided by barriers, not by time: the coalescer is FIFO per
// destination and the failure pipeline (error handler -> queue -> drain
// goroutine -> dead-letter mailbox -> event stream) is FIFO, so once the
// dead letter of a last, deliberately failed message has been seen every
// earlier failure has been published.
// ---------------------------------------------------------------------------

const (
	c27aActOK           = 0
	c27aActErrReply     = 1
	c27aActClose        = 2
	c27aActDeliverClose = 3
)

type c27aSender struct {
	Dest   int  `json:"dest"`   // 0,1: real actors on system B; 2,3: names on the faulty node
	N      int  `json:"n"`      // messages
	ViaPID bool `json:"via_pid"` // PID.Tell from a local actor of A (sender address set) instead of Tell (no sender)
	Yield  int  `json:"yield"`
}

type c27aCase struct {
	Senders []c27aSender `json:"senders"`
	Plan    []int        `json:"plan"` // per batch received by the faulty node
}

func c27aGen(t *rapid.T) c27aCase {
	var c c27aCase
	n := rapid.IntRange(1, 4).Draw(t, "senders")
	for i := 0; i < n; i++ {
		c.Senders = append(c.Senders, c27aSender{
			Dest:   rapid.SampledFrom([]int{0, 1, 2, 2, 3}).Draw(t, "dest"),
			N:      rapid.OneOf(rapid.IntRange(1, 30), rapid.SampledFrom([]int{1, 2, 30})).Draw(t, "n"),
			ViaPID: rapid.Bool().Draw(t, "via_pid"),
			Yield:  rapid.SampledFrom([]int{0, 0, 1, 3, -1}).Draw(t, "yield"),
		})
	}
	np := rapid.IntRange(0, 8).Draw(t, "plan_n")
	for i := 0; i < np; i++ {
		c.Plan = append(c.Plan, rapid.SampledFrom([]int{c27aActOK, c27aActOK, c27aActErrReply, c27aActClose, c27aActDeliverClose}).Draw(t, "act"))
	}
	return c
}

type c27aState struct {
	nonce string
	plan  []int

	mu        sync.Mutex
	cond      *sync.Cond
	recv      map[string][]string // target name -> tokens in arrival order (real actors and faulty node alike)
	dead      map[string]string   // token -> receiver path of the dead letter
	deadN     map[string]int
	nextBatch int
	failAll   bool
	batches   []int
}

var (
	c27aCur   atomic.Pointer[c27aState]
	c27aSeq   atomic.Int64
	c27aCodec = remote.NewProtoSerializer()
)

func (st *c27aState) record(target, tok string) {
	st.mu.Lock()
	st.recv[target] = append(st.recv[target], tok)
	st.cond.Broadcast()
	st.mu.Unlock()
}

func (st *c27aState) waitFor(limit time.Duration, pred func() bool) bool {
	deadline := time.Now().Add(limit)
	timer := time.AfterFunc(limit, func() { st.mu.Lock(); st.cond.Broadcast(); st.mu.Unlock() })
	defer timer.Stop()
	st.mu.Lock()
	defer st.mu.Unlock()
	for !pred() {
		if !time.Now().Before(deadline) {
			return false
		}
		st.cond.Wait()
	}
	return true
}

// c27aRecv is the receiving actor on system B.
type c27aRecv struct{ name string }

func (*c27aRecv) PreStart(*Context) error { return nil }
func (*c27aRecv) PostStop(*Context) error { return nil }
func (r *c27aRecv) Receive(ctx *ReceiveContext) {
	if m, ok := ctx.Message().(*testpb.Reply); ok {
		if st := c27aCur.Load(); st != nil && strings.HasPrefix(m.GetContent(), st.nonce+"|") {
			st.record(r.name, m.GetContent())
		}
	}
}

// c27aIdle is the local sending actor on system A.
type c27aIdle struct{}

func (*c27aIdle) PreStart(*Context) error { return nil }
func (*c27aIdle) PostStop(*Context) error { return nil }
func (*c27aIdle) Receive(*ReceiveContext) {}

func c27aFaultHandle(_ context.Context, _ inet.Connection, req proto.Message) (proto.Message, error) {
	r, ok := req.(*internalpb.RemoteTellRequest)
	if !ok {
		return nil, errors.New("c27a: unexpected request type")
	}
	st := c27aCur.Load()
	type item struct{ target, tok string }
	var items []item
	for _, m := range r.GetRemoteMessages() {
		v, err := c27aCodec.Deserialize(m.GetMessage())
		if err != nil {
			continue
		}
		rep, ok := v.(*testpb.Reply)
		if !ok {
			continue
		}
		target := m.GetReceiver()
		if i := strings.LastIndex(target, "/"); i >= 0 {
			target = target[i+1:]
		}
		items = append(items, item{target, rep.GetContent()})
	}
	if st == nil || len(items) == 0 || !strings.HasPrefix(items[0].tok, st.nonce+"|") {
		return new(internalpb.RemoteTellResponse), nil
	}
	st.mu.Lock()
	idx := st.nextBatch
	st.nextBatch++
	st.batches = append(st.batches, len(items))
	act := c27aActOK
	if idx < len(st.plan) {
		act = st.plan[idx]
	}
	if st.failAll {
		act = c27aActClose
	}
	st.mu.Unlock()
	deliver := func() {
		for _, it := range items {
			st.record(it.target, it.tok)
		}
	}
	switch act {
	case c27aActErrReply:
		return &internalpb.Error{Code: internalpb.Code_CODE_UNAVAILABLE, Message: "c27 planned failure"}, nil
	case c27aActClose:
		return nil, errors.New("c27 planned close")
	case c27aActDeliverClose:
		deliver()
		return nil, errors.New("c27 planned close after delivery")
	default:
		deliver()
		return new(internalpb.RemoteTellResponse), nil
	}
}

type c27aFixture struct {
	a, b      *actorSystem
	portB     int
	portF     int
	senderPID *PID
	targets   []*PID // remote handles as seen from A: 0,1 on B; 2,3 on the faulty node
	names     []string
	err       error
}

var (
	c27aFixOnce sync.Once
	c27aFix     c27aFixture
)

func c27aStartSystem(name string) (*actorSystem, int, error) {
	var lastErr error
	for attempt := 0; attempt < 5; attempt++ {
		port := inet.Get(1)[0]
		sys, err := NewActorSystem(name, WithLogger(log.DiscardLogger), WithRemote(remote.NewConfig("127.0.0.1", port)))
		if err != nil {
			return nil, 0, err
		}
		if err := sys.Start(context.Background()); err != nil {
			lastErr = err
			continue
		}
		return sys.(*actorSystem), port, nil
	}
	return nil, 0, lastErr
}

func c27aFixtures(t *testing.T) *c27aFixture {
	c27aFixOnce.Do(func() {
		f := &c27aFix
		a, _, err := c27aStartSystem("c27a")
		if err != nil {
			f.err = err
			return
		}
		b, portB, err := c27aStartSystem("c27b")
		if err != nil {
			_ = a.Stop(context.Background())
			f.err = err
			return
		}
		f.a, f.b, f.portB = a, b, portB
		t.Cleanup(func() {
			_ = a.Stop(context.Background())
			_ = b.Stop(context.Background())
		})
		ps, err := inet.NewProtoServer("127.0.0.1:0", inet.WithProtoHandler("internalpb.RemoteTellRequest", c27aFaultHandle))
		if err == nil {
			err = ps.Listen()
		}
		if err != nil {
			f.err = err
			return
		}
		f.portF = ps.ListenAddr().Port
		go func() { _ = ps.Serve() }()
		t.Cleanup(func() { _ = ps.Halt() })

		ctx := context.Background()
		f.names = []string{"c27-recv-0", "c27-recv-1", "c27-ghost-2", "c27-ghost-3"}
		for i := 0; i < 2; i++ {
			pid, err := b.Spawn(ctx, f.names[i], &c27aRecv{name: f.names[i]}, WithLongLived())
			if err != nil {
				f.err = err
				return
			}
			f.targets = append(f.targets, newRemotePID(pid.getAddress(), a.remoting))
		}
		for i := 2; i < 4; i++ {
			f.targets = append(f.targets, newRemotePID(address.New(f.names[i], "c27f", "127.0.0.1", f.portF), a.remoting))
		}
		f.senderPID, f.err = a.Spawn(ctx, "c27-sender", &c27aIdle{}, WithLongLived())
	})
	return &c27aFix
}

// c27aPump moves Deadletter events of system A into the current case state until stop is closed.
// The subscription is made by the caller, synchronously, before the first message is sent.
func c27aPump(sub eventstream.Subscriber, st *c27aState, stop <-chan struct{}, done chan<- struct{}) {
	defer close(done)
	for {
		for m := range sub.Iterator() {
			dl, ok := m.Payload().(*Deadletter)
			if !ok {
				continue
			}
			rep, ok := dl.Message().(*testpb.Reply)
			if !ok || !strings.HasPrefix(rep.GetContent(), st.nonce+"|") {
				continue
			}
			st.mu.Lock()
			st.dead[rep.GetContent()] = dl.Receiver().String()
			st.deadN[rep.GetContent()]++
			st.cond.Broadcast()
			st.mu.Unlock()
		}
		select {
		case <-stop:
			return
		case <-time.After(time.Millisecond):
		}
	}
}

func c27aExec(fix *c27aFixture) func(x *vfkit.X, c c27aCase) {
	return func(x *vfkit.X, c c27aCase) {
		if fix.err != nil {
			x.Class("infra_unavailable")
			x.Logf("fixture: %v", fix.err)
			return
		}
		st := &c27aState{nonce: "c27a-" + strconv.FormatInt(c27aSeq.Add(1), 10), plan: c.Plan, recv: map[string][]string{}, dead: map[string]string{}, deadN: map[string]int{}}
		st.cond = sync.NewCond(&st.mu)
		c27aCur.Store(st)
		defer c27aCur.Store(nil)
		sub, err := fix.a.Subscribe()
		if err != nil {
			x.Class("infra_unavailable")
			return
		}
		stop, pumped := make(chan struct{}), make(chan struct{})
		go c27aPump(sub, st, stop, pumped)
		defer func() { close(stop); <-pumped; _ = fix.a.Unsubscribe(sub) }()

		ctx := context.Background()
		type res struct {
			tok      string
			dest     int
			accepted bool
			err      string
		}
		results := make([][]res, len(c.Senders))
		var wg sync.WaitGroup
		start := make(chan struct{})
		for si, s := range c.Senders {
			wg.Add(1)
			go func(si int, s c27aSender) {
				defer wg.Done()
				<-start
				for seq := 0; seq < s.N; seq++ {
					tok := fmt.Sprintf("%s|%d|%d", st.nonce, si, seq)
					var err error
					if s.ViaPID {
						err = fix.senderPID.Tell(ctx, fix.targets[s.Dest], &testpb.Reply{Content: tok})
					} else {
						err = Tell(ctx, fix.targets[s.Dest], &testpb.Reply{Content: tok})
					}
					r := res{tok: tok, dest: s.Dest, accepted: err == nil}
					if err != nil {
						r.err = err.Error()
					}
					results[si] = append(results[si], r)
					switch {
					case s.Yield > 0 && (seq+1)%s.Yield == 0:
						runtime.Gosched()
					case s.Yield < 0:
						time.Sleep(20 * time.Microsecond)
					}
				}
			}(si, s)
		}
		close(start)
		wg.Wait()

		// ---- barriers ---------------------------------------------------------------
		usedB, usedF := false, false
		for _, s := range c.Senders {
			if s.Dest < 2 {
				usedB = true
			} else {
				usedF = true
			}
		}
		has := func(target, tok string) bool {
			for _, v := range st.recv[target] {
				if v == tok {
					return true
				}
			}
			return false
		}
		// one barrier per real target actor: the coalescer to B is FIFO and remoteTellHandler enqueues
		// into the target mailboxes in batch order, so once a target has processed its barrier it has
		// processed every earlier message that reached it (or that message's batch failed earlier)
		for ti := 0; ti < 2; ti++ {
			used := false
			for _, s := range c.Senders {
				used = used || s.Dest == ti
			}
			if !used {
				continue
			}
			bar := fmt.Sprintf("%s|bar|B%d", st.nonce, ti)
			if err := Tell(ctx, fix.targets[ti], &testpb.Reply{Content: bar}); err != nil {
				x.Class("inconclusive_barrier_refused")
				return
			}
			name := fix.names[ti]
			if !st.waitFor(20*time.Second, func() bool { _, d := st.dead[bar]; return d || has(name, bar) }) {
				x.Class("inconclusive_stall_barrier_b")
				return
			}
		}
		// the failure pipeline of A is shared by all destinations: a last message that is made
		// to fail on the faulty node flushes it (also for failures of batches sent to B)
		bar1 := st.nonce + "|bar|F1"
		if usedF {
			if err := Tell(ctx, fix.targets[2], &testpb.Reply{Content: bar1}); err != nil {
				x.Class("inconclusive_barrier_refused")
				return
			}
			if !st.waitFor(20*time.Second, func() bool { _, d := st.dead[bar1]; return d || has(fix.names[2], bar1) }) {
				x.Class("inconclusive_stall_barrier_f1")
				return
			}
		}
		st.mu.Lock()
		st.failAll = true
		st.mu.Unlock()
		bar2 := st.nonce + "|bar|F2"
		if err := Tell(ctx, fix.targets[2], &testpb.Reply{Content: bar2}); err != nil {
			x.Class("inconclusive_barrier_refused")
			return
		}
		if !st.waitFor(20*time.Second, func() bool { _, d := st.dead[bar2]; return d }) {
			// No dead letter for the doomed barrier. Probe with further doomed single messages (each
			// sent after the previous wait, hence in a later batch). The failure pipeline is FIFO:
			// if the dead letter of a later probe shows up while the barrier's is still missing, the
			// barrier's failed batch was dropped, and it was not the documented overflow drop because
			// a case produces far fewer failed batches than the 256-slot fan-out queue holds and the
			// previous case ended with an empty pipeline. If nothing shows up at all this is a stall
			// (three strikes) and stays inconclusive unless all three probes time out.
			strikes := 1
			for i := 0; i < 2; i++ {
				extra := fmt.Sprintf("%s|bar|F2x%d", st.nonce, i)
				_ = Tell(ctx, fix.targets[2], &testpb.Reply{Content: extra})
				if !st.waitFor(20*time.Second, func() bool { _, d := st.dead[extra]; return d }) {
					strikes++
					continue
				}
				st.mu.Lock()
				_, late := st.dead[bar2]
				batches := append([]int(nil), st.batches...)
				st.mu.Unlock()
				if !late {
					x.Failf("failed-batch-dropped-by-failure-pipeline", "the connection of the single-message batch carrying %q was closed by the remote node, no Deadletter event for it was published, yet the dead letter of the later failed message %q was (FIFO pipeline, %d failed batches at most in this case, fan-out queue of 256): the failure of the first batch was dropped (faulty-node batches %v)", bar2, extra, len(batches), batches)
				}
				break
			}
			if strikes == 3 {
				x.Failf("failed-batch-never-dead-lettered", "three single-message batches whose connection the remote node closed produced no Deadletter event on the sending system within 20 s each")
			}
			x.Class("inconclusive_stall_barrier_f2")
			return
		}

		// ---- judge ------------------------------------------------------------------
		st.mu.Lock()
		defer st.mu.Unlock()
		x.Logf("case %s: faulty-node batches=%v plan=%v dead=%d", st.nonce, st.batches, c.Plan, len(st.dead))
		for target, toks := range st.recv {
			last := map[string]int{}
			seen := map[string]bool{}
			for _, tok := range toks {
				parts := strings.Split(tok, "|")
				if len(parts) != 3 || parts[1] == "bar" {
					continue
				}
				if seen[tok] {
					x.Failf("delivered-twice", "target %s received %q twice", target, tok)
				}
				seen[tok] = true
				seq, _ := strconv.Atoi(parts[2])
				if prev, ok := last[parts[1]]; ok && seq < prev {
					x.Failf("order-violated-per-sender", "target %s: message #%d of sender %s arrived after #%d (faulty-node batches %v)", target, seq, parts[1], prev, st.batches)
				}
				last[parts[1]] = seq
				si, _ := strconv.Atoi(parts[1])
				if si < 0 || si >= len(c.Senders) || fix.names[c.Senders[si].Dest] != target {
					x.Failf("delivered-to-wrong-target", "target %s received %q which was sent to %s", target, tok, fix.names[c.Senders[si].Dest])
				}
			}
		}
		deadSeen, accepted := 0, 0
		for si := range results {
			for _, r := range results[si] {
				if !r.accepted {
					x.Class("rejected")
					x.Logf("rejected %s: %s", r.tok, r.err)
					continue
				}
				accepted++
				target := fix.names[r.dest]
				got := false
				for _, v := range st.recv[target] {
					if v == r.tok {
						got = true
					}
				}
				rcv, isDead := st.dead[r.tok]
				if isDead {
					deadSeen++
					if !strings.Contains(rcv, target) {
						x.Failf("dead-letter-wrong-receiver", "the dead letter of %q (sent to %s) names receiver %q", r.tok, target, rcv)
					}
				}
				if got && isDead {
					x.Class("delivered_and_dead_lettered")
				}
				if !got && !isDead {
					x.Failf("accepted-message-neither-delivered-nor-dead-lettered", "Tell of %q to %s returned nil; the target never received it and no Deadletter event for it was published on the sending system although the failure pipeline was flushed by a later failed message (faulty-node batches %v, plan %v)", r.tok, target, st.batches, c.Plan)
				}
			}
		}
		if usedB {
			x.Class("dest_real_system")
		}
		if usedF {
			x.Class("dest_faulty_node")
		}
		if deadSeen > 0 {
			x.Class("dead_letters_seen")
		}
		if accepted > 0 && deadSeen > 0 {
			x.NonTrivial()
		}
	}
}

func TestVF_C27_actor(t *testing.T) {
	fix := c27aFixtures(t)
	vfkit.Run(t, vfkit.Spec[c27aCase]{
		ID: "C27", Unit: "actor",
		Rule: "cases = 1..4 concurrent senders on a real actor system A x 1..30 messages each through Tell / PID.Tell on remote PIDs (production path with the system's own coalescing client and error handler) to two real actors on a second real system B or to two actor names on a faulty third node (real ProtoServer whose RemoteTellRequest handler follows a generated per-batch plan: ok | error reply | close | deliver then close); completion by FIFO barriers (a last message to B, then a message the faulty node is made to fail: its dead letter flushes A's failure pipeline); every accepted message must have been received by its target or appear as a Deadletter event on A; per sender and target arrival order = send order, no duplicates. non-trivial = at least one accepted message of the case was dead-lettered; distinct = distinct case",
		Gen:  c27aGen, Exec: c27aExec(fix),
		ReplayReps: 10,
	})
}

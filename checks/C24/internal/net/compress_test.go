//go:build verif

package net

import (
	"bytes"
	"compress/gzip"
	"encoding/binary"
	"errors"
	"fmt"
	"io"
	stdnet "net"
	"sync"
	"testing"
	"time"

	"github.com/klauspost/compress/zstd"
	"pgregory.net/rapid"

	"github.com/tochemey/goakt/v4/internal/vfkit"
)

// ---- generators shared by both units ---------------------------------------------

// c24Uniform draws an (almost) uniform integer in [0,n) from fair coin flips;
// rapid's integer generators are biased towards small magnitudes.
func c24Uniform(t *rapid.T, label string, n int) int {
	if n <= 1 {
		return 0
	}
	bits := 3
	for 1<<(bits-3) < n {
		bits++
	}
	v := 0
	for _, b := range rapid.SliceOfN(rapid.Bool(), bits, bits).Draw(t, label) {
		v <<= 1
		if b {
			v |= 1
		}
	}
	return v % n
}

func c24Pick[T any](t *rapid.T, label string, vals []T) T {
	return vals[c24Uniform(t, label, len(vals))]
}

const (
	c24None = iota
	c24Gzip
	c24Zstd
	c24Brotli
)

var c24KindNames = []string{"none", "gzip", "zstd", "brotli"}

// c24Cfg is one compression setting; the two ends of a connection are wrapped by
// two independent wrappers (client side / server side) of the same algorithm,
// possibly with different levels, as two differently configured nodes would.
type c24Cfg struct {
	Kind   int `json:"kind"`
	LevelA int `json:"level_a"`
	LevelB int `json:"level_b"`
	Window int `json:"window,omitempty"` // zstd encoder window (0 = wrapper default)
}

func (c c24Cfg) slow() bool {
	switch c.Kind {
	case c24Brotli:
		return c.LevelA >= 7 || c.LevelB >= 7
	case c24Zstd:
		return c.LevelA >= int(zstd.SpeedBetterCompression) || c.LevelB >= int(zstd.SpeedBetterCompression) || c.Window > 1<<20
	}
	return false
}

func c24GenCfg(t *rapid.T) c24Cfg {
	var c c24Cfg
	c.Kind = c24Pick(t, "kind", []int{c24Gzip, c24Zstd, c24Brotli, c24Gzip, c24Zstd, c24Brotli, c24Zstd, c24None})
	lvl := func(label string) int {
		switch c.Kind {
		case c24Gzip:
			return c24Pick(t, label, []int{gzip.DefaultCompression, gzip.HuffmanOnly, gzip.NoCompression, gzip.BestSpeed, 2, 5, 6, gzip.BestCompression})
		case c24Zstd:
			return c24Pick(t, label, []int{1, 2, 1, 2, 1, 2, 1, 2, 1, 2, 1, 2, 1, 2, int(zstd.SpeedBetterCompression), int(zstd.SpeedBestCompression)})
		case c24Brotli:
			return c24Pick(t, label, []int{6, 0, 1, 2, 4, 5, 3, 6, 6, 0, 1, 2, 4, 5, 9, 11})
		}
		return 0
	}
	c.LevelA = lvl("level_a")
	if c24Uniform(t, "same_level", 3) == 0 {
		c.LevelB = lvl("level_b")
	} else {
		c.LevelB = c.LevelA
	}
	if c.Kind == c24Zstd {
		c.Window = c24Pick(t, "window", []int{0, 0, 1 << 10, 1 << 12, 1 << 16, 1 << 20, 0, 0, 0, 1 << 10, 1 << 11, 1 << 14, 1 << 16, 1 << 17, 0, 8 << 20})
	}
	return c
}

func c24Wrapper(c c24Cfg, level int) (ConnWrapper, error) {
	switch c.Kind {
	case c24Gzip:
		return NewGzipConnWrapper(WithGzipLevel(level))
	case c24Zstd:
		opts := []ZstdOption{WithZstdLevel(zstd.EncoderLevel(level))}
		if c.Window > 0 {
			opts = append(opts, WithZstdWindow(c.Window))
		}
		return NewZstdConnWrapper(opts...)
	case c24Brotli:
		return NewBrotliConnWrapper(WithBrotliLevel(level)), nil
	}
	return nil, nil
}

// content kinds
const (
	c24Zeros = iota
	c24Random
	c24Frames
	c24Text
	c24Counter
	c24ContentKinds
)

// c24Content synthesises the bytes of one write from its description.
func c24Content(kind int, seed uint32, size int) []byte {
	b := make([]byte, size)
	s := seed*2654435761 + 1
	next := func() uint32 {
		s ^= s << 13
		s ^= s >> 17
		s ^= s << 5
		return s
	}
	switch kind {
	case c24Zeros:
		fill := byte(seed)
		if seed%3 != 0 {
			fill = 0
		}
		for i := range b {
			b[i] = fill
		}
	case c24Random:
		for i := 0; i < size; i += 4 {
			var w [4]byte
			binary.LittleEndian.PutUint32(w[:], next())
			copy(b[i:], w[:])
		}
	case c24Frames:
		// repeated wire frames: [totalLen][nameLen][type name][payload]
		name := "internalpb.RemoteTell"
		payload := int(seed%97) + 3
		var fr []byte
		fr = binary.BigEndian.AppendUint32(fr, uint32(8+len(name)+payload))
		fr = binary.BigEndian.AppendUint32(fr, uint32(len(name)))
		fr = append(fr, name...)
		for i := 0; i < payload; i++ {
			fr = append(fr, byte(seed>>uint(i%24))+byte(i))
		}
		for i := 0; i < size; i += len(fr) {
			copy(b[i:], fr)
			if seed%5 == 0 && len(fr) > 40 {
				fr[len(fr)-1]++ // slowly varying frames
			}
		}
	case c24Text:
		words := []string{"actor", "grain", "goakt", "remote", "tell", "ask", "cluster", "{\"k\":", "\"v\"}", "\n", " ", ",", "0123456789"}
		i := 0
		for i < size {
			i += copy(b[i:], words[next()%uint32(len(words))])
		}
	default:
		for i := range b {
			b[i] = byte(uint32(i) + seed)
		}
	}
	return b
}

// c24Write describes one Write on one end.
type c24Write struct {
	Dir     int    `json:"dir"` // 0: A writes, B reads; 1: B writes, A reads
	Size    int    `json:"size"`
	Content int    `json:"content"`
	Seed    uint32 `json:"seed"`
	ReadBuf []int  `json:"read_buf"` // buffer sizes the peer reads with (cycled)
	Defer   bool   `json:"defer"`    // the peer does not read this write before the next operation
}

var c24Sizes = []int{0, 1, 2, 3, 255, 256, 4095, 4096, 4097, 65535, 65536, 65537, 4096, 1, 2, 0}

func c24GenWrite(t *rapid.T, budget *int, slow bool) c24Write {
	var w c24Write
	w.Dir = c24Uniform(t, "dir", 2)
	switch c24Uniform(t, "size_kind", 8) {
	case 0, 1, 2:
		w.Size = c24Pick(t, "size_b", c24Sizes)
	case 3:
		w.Size = rapid.IntRange(0, 600).Draw(t, "size_s")
	case 4:
		w.Size = rapid.IntRange(0, 70000).Draw(t, "size_m")
	case 5:
		w.Size = c24Pick(t, "size_tiny", []int{0, 1, 1, 2, 2, 1, 2, 1})
	case 6:
		w.Size = c24Pick(t, "size_k", []int{512, 1024, 4096, 8192, 16384, 32768, 32769, 131072})
	default:
		w.Size = c24Pick(t, "size_l", []int{1 << 20, 4096, 4097, 65536, 100, 262144, 2, 1, 0, 4096, 16, 65536, 1000, 131072, 2, 1})
		if vfkit.Thorough() && w.Size >= 65536 {
			w.Size = c24Pick(t, "size_xl", []int{1 << 20, 1<<20 + 1, 1<<20 - 1, 524288, 2 << 20, 65537, 1 << 20, 300000})
		}
	}
	if slow && w.Size > 70000 {
		w.Size = 65536 + w.Size%4096
	}
	if w.Size > *budget {
		w.Size = *budget
	}
	*budget -= w.Size
	w.Content = c24Uniform(t, "content", c24ContentKinds)
	w.Seed = rapid.Uint32().Draw(t, "seed")
	w.ReadBuf = rapid.SliceOfN(rapid.SampledFrom([]int{1, 2, 3, 7, 64, 512, 4096, 4097, 32768, 65536, 1 << 20}), 1, 4).Draw(t, "read_buf")
	if w.Size > 8192 {
		// a large write is not collected byte by byte
		for i, v := range w.ReadBuf {
			if v < w.Size/512 {
				w.ReadBuf[i] = w.Size/512 + v
			}
		}
	}
	w.Defer = c24Uniform(t, "defer", 5) == 0
	return w
}

// ---- unit pingpong: deterministic in-memory transport -------------------------------

var errC24WouldBlock = errors.New("c24: no byte available on the transport (a real connection would block here)")

// c24End is one end of an in-memory, unbounded, non-blocking duplex transport.
// Everything runs on one goroutine: a Read that finds nothing means the peer has
// not put the bytes on the wire, and no later event could deliver them.
type c24End struct {
	name    string
	inbox   []byte
	peer    *c24End
	closed  bool
	chunks  []int
	ci      int
	starved int
	wire    int // bytes put on the wire by this end
}

func c24NewPipe(chunks []int) (*c24End, *c24End) {
	a, b := &c24End{name: "A", chunks: chunks}, &c24End{name: "B", chunks: chunks}
	a.peer, b.peer = b, a
	return a, b
}

func (e *c24End) Read(p []byte) (int, error) {
	if e.closed {
		return 0, stdnet.ErrClosed
	}
	if len(p) == 0 {
		return 0, nil
	}
	if len(e.inbox) == 0 {
		if e.peer.closed {
			return 0, io.EOF
		}
		e.starved++
		return 0, errC24WouldBlock
	}
	n := len(e.inbox)
	if len(e.chunks) > 0 {
		c := e.chunks[e.ci%len(e.chunks)]
		e.ci++
		if c < 1 {
			c = 1
		}
		if n > c {
			n = c
		}
	}
	if n > len(p) {
		n = len(p)
	}
	copy(p, e.inbox[:n])
	e.inbox = e.inbox[n:]
	return n, nil
}

func (e *c24End) Write(p []byte) (int, error) {
	if e.closed {
		return 0, stdnet.ErrClosed
	}
	if e.peer.closed {
		return 0, io.ErrClosedPipe
	}
	e.peer.inbox = append(e.peer.inbox, p...)
	e.wire += len(p)
	return len(p), nil
}

func (e *c24End) Close() error { e.closed = true; return nil }
func (e *c24End) LocalAddr() stdnet.Addr {
	return &stdnet.TCPAddr{IP: stdnet.IPv4(127, 0, 0, 1), Port: 1}
}
func (e *c24End) RemoteAddr() stdnet.Addr {
	return &stdnet.TCPAddr{IP: stdnet.IPv4(127, 0, 0, 1), Port: 2}
}
func (e *c24End) SetDeadline(time.Time) error      { return nil }
func (e *c24End) SetReadDeadline(time.Time) error  { return nil }
func (e *c24End) SetWriteDeadline(time.Time) error { return nil }

type c24Session struct {
	Writes     []c24Write `json:"writes"`
	CloseFirst int        `json:"close_first"` // which end closes first
}

type c24PPCase struct {
	Cfg       c24Cfg       `json:"cfg"`
	Sessions  []c24Session `json:"sessions"` // consecutive connections through the same two wrappers (pooled codecs are reused)
	RawChunks []int        `json:"raw_chunks"`
}

func c24GenPP(t *rapid.T) c24PPCase {
	var c c24PPCase
	c.Cfg = c24GenCfg(t)
	budget := 384 << 10
	if vfkit.Thorough() {
		budget = 3 << 20
	}
	if c.Cfg.slow() {
		budget = 32 << 10
	}
	ns := c24Pick(t, "sessions", []int{1, 2, 1, 2, 3, 1, 2, 1})
	if c.Cfg.slow() && ns > 2 {
		ns = 2
	}
	for s := 0; s < ns; s++ {
		var ses c24Session
		nw := c24Pick(t, "writes", []int{1, 2, 3, 4, 5, 6, 8, 10, 12, 16, 3, 4, 3, 5, 7, 9})
		if !c.Cfg.slow() && c24Uniform(t, "many_writes", 16) == 0 {
			nw = c24Pick(t, "writes_many", []int{24, 40})
		}
		if c.Cfg.slow() && nw > 6 {
			nw = 3 + nw%4
		}
		for i := 0; i < nw; i++ {
			ses.Writes = append(ses.Writes, c24GenWrite(t, &budget, c.Cfg.slow()))
		}
		ses.CloseFirst = c24Uniform(t, "close_first", 2)
		c.Sessions = append(c.Sessions, ses)
	}
	c.RawChunks = rapid.SliceOfN(rapid.SampledFrom([]int{1, 2, 3, 5, 9, 64, 512, 1460, 4096, 65536, 1 << 30}), 1, 5).Draw(t, "raw_chunks")
	return c
}

// c24Guard turns a panic of the code under test into a violation with its own fingerprint.
func c24Guard(x *vfkit.X, what string, f func()) {
	defer func() {
		if p := recover(); p != nil {
			if fmt.Sprintf("%T", p) == "*vfkit.failure" {
				panic(p)
			}
			x.Failf("compressed-conn-panic", "%s panicked: %v", what, p)
		}
	}()
	f()
}

func c24Classify(x *vfkit.X, writes []c24Write) {
	big, tiny := false, false
	for _, w := range writes {
		if w.Size >= 4096 {
			big = true
		}
		if w.Size <= 2 {
			tiny = true
		}
		if w.Size == 0 {
			x.Class("zero_length_write")
		}
		if w.Size >= 1<<20 {
			x.Class("write>=1MiB")
		}
	}
	if len(writes) >= 3 && big && tiny {
		x.NonTrivial()
	}
}

func c24ExecPP(x *vfkit.X, c c24PPCase) {
	wa, err := c24Wrapper(c.Cfg, c.Cfg.LevelA)
	if err != nil {
		x.Failf("wrapper-rejects-valid-setting", "%s level %d window %d: %v", c24KindNames[c.Cfg.Kind], c.Cfg.LevelA, c.Cfg.Window, err)
	}
	wb, err := c24Wrapper(c.Cfg, c.Cfg.LevelB)
	if err != nil {
		x.Failf("wrapper-rejects-valid-setting", "%s level %d window %d: %v", c24KindNames[c.Cfg.Kind], c.Cfg.LevelB, c.Cfg.Window, err)
	}
	x.Class(c24KindNames[c.Cfg.Kind])
	if len(c.Sessions) > 1 {
		x.Class("codec_reuse_across_connections")
	}
	var all []c24Write
	for si, ses := range c.Sessions {
		rawA, rawB := c24NewPipe(c.RawChunks)
		var ends [2]stdnet.Conn = [2]stdnet.Conn{rawA, rawB}
		if wa != nil {
			c24Guard(x, "Wrap", func() { ends[0], err = wa.Wrap(rawA) })
			if err != nil {
				x.Failf("wrap-failed", "session %d: Wrap on a fresh connection: %v", si, err)
			}
			c24Guard(x, "Wrap", func() { ends[1], err = wb.Wrap(rawB) })
			if err != nil {
				x.Failf("wrap-failed", "session %d: Wrap on a fresh connection: %v", si, err)
			}
		}
		var pending [2][]byte // written and not yet read, per direction
		drain := func(dir int, bufs []int, when string) {
			rd := ends[1-dir]
			bi, idle := 0, 0
			var buf []byte
			for len(pending[dir]) > 0 {
				sz := 4096
				if len(bufs) > 0 {
					sz = bufs[bi%len(bufs)]
					bi++
				}
				if sz > len(pending[dir]) {
					sz = len(pending[dir]) // never ask for more than what has been written
				}
				if sz > len(buf) {
					buf = make([]byte, sz)
				}
				p := buf[:sz]
				var n int
				var err error
				c24Guard(x, "Read", func() { n, err = rd.Read(p) })
				if n > 0 && !bytes.Equal(p[:n], pending[dir][:n]) {
					x.Failf("bytes-differ", "session %d, %s, %s: Read returned %d bytes that differ from the bytes written (direction %d, %d bytes still expected)", si, c24KindNames[c.Cfg.Kind], when, n, dir, len(pending[dir]))
				}
				pending[dir] = pending[dir][n:]
				if err != nil && len(pending[dir]) > 0 {
					fp := "written-bytes-not-readable"
					if errors.Is(err, errC24WouldBlock) {
						fp = "written-bytes-not-on-the-wire"
					}
					x.Failf(fp, "session %d, %s, %s: %d written bytes cannot be read by the peer without further writes (direction %d): %v", si, c24KindNames[c.Cfg.Kind], when, len(pending[dir]), dir, err)
				}
				if n == 0 {
					if idle++; idle > 64 {
						x.Failf("reader-makes-no-progress", "session %d, %s: 64 consecutive empty reads with %d bytes pending", si, c24KindNames[c.Cfg.Kind], len(pending[dir]))
					}
				} else {
					idle = 0
				}
			}
		}
		for wi, w := range ses.Writes {
			data := c24Content(w.Content, w.Seed, w.Size)
			var n int
			var err error
			c24Guard(x, "Write", func() { n, err = ends[w.Dir].Write(data) })
			if err != nil || n != len(data) {
				x.Failf("write-failed", "session %d write %d (%d bytes, %s): n=%d err=%v", si, wi, len(data), c24KindNames[c.Cfg.Kind], n, err)
			}
			pending[w.Dir] = append(pending[w.Dir], data...)
			if w.Defer {
				x.Class("deferred_read")
				continue
			}
			drain(w.Dir, w.ReadBuf, fmt.Sprintf("after write %d", wi))
		}
		drain(0, nil, "at the end of the session")
		drain(1, nil, "at the end of the session")
		// nothing but the written bytes ever comes out: after the writer closes, the reader gets no byte
		first := ses.CloseFirst & 1
		c24Guard(x, "Close", func() { _ = ends[first].Close() })
		p := make([]byte, 64)
		for i := 0; i < 4; i++ {
			var n int
			var err error
			c24Guard(x, "Read after the peer closed", func() { n, err = ends[1-first].Read(p) })
			if n > 0 {
				x.Failf("bytes-out-of-nothing", "session %d, %s: %d bytes read after everything written had been consumed and the writer closed", si, c24KindNames[c.Cfg.Kind], n)
			}
			if err != nil {
				break
			}
		}
		c24Guard(x, "Close", func() { _ = ends[1-first].Close() })
		all = append(all, ses.Writes...)
	}
	c24Classify(x, all)
}

func TestVF_C24_pingpong(t *testing.T) {
	vfkit.Run(t, vfkit.Spec[c24PPCase]{
		ID: "C24", Unit: "pingpong",
		Rule: "cases = compression setting (none/gzip/zstd/brotli, levels of the two ends, zstd window) x 1..3 consecutive connections through the same two wrappers x 1..40 writes per connection in both directions (sizes biased to 0,1,2,255,4KiB,64KiB,1MiB +-1; zeros/random/repeated frames/text), each collected by the peer with generated buffer sizes right after the write (or deferred), over a single-goroutine in-memory transport with generated segmenting where an empty Read is an error; non-trivial = >=3 writes with one >=4KiB and one <=2 bytes; distinct = distinct case",
		Gen:  c24GenPP, Exec: c24ExecPP,
	})
}

// ---- unit stream: real transports, both directions at once ---------------------------

type c24StreamCase struct {
	Cfg       c24Cfg     `json:"cfg"`
	Transport int        `json:"transport"` // 0 net.Pipe, 1 loopback TCP
	Writes    []c24Write `json:"writes"`    // Dir selects the direction; each direction is written by its own goroutine
}

func c24GenStream(t *rapid.T) c24StreamCase {
	var c c24StreamCase
	c.Cfg = c24GenCfg(t)
	c.Transport = c24Uniform(t, "transport", 2)
	budget := 384 << 10
	if vfkit.Thorough() {
		budget = 2 << 20
	}
	if c.Cfg.slow() {
		budget = 32 << 10
	}
	nw := c24Pick(t, "writes", []int{1, 2, 3, 4, 6, 8, 12, 20})
	for i := 0; i < nw; i++ {
		c.Writes = append(c.Writes, c24GenWrite(t, &budget, c.Cfg.slow()))
	}
	return c
}

var c24Listener struct {
	once sync.Once
	l    stdnet.Listener
	err  error
}

func c24TCPPair() (stdnet.Conn, stdnet.Conn, error) {
	c24Listener.once.Do(func() { c24Listener.l, c24Listener.err = stdnet.Listen("tcp", "127.0.0.1:0") })
	if c24Listener.err != nil {
		return nil, nil, c24Listener.err
	}
	type res struct {
		c   stdnet.Conn
		err error
	}
	ch := make(chan res, 1)
	go func() {
		c, err := c24Listener.l.Accept()
		ch <- res{c, err}
	}()
	a, err := stdnet.DialTimeout("tcp", c24Listener.l.Addr().String(), 10*time.Second)
	if err != nil {
		return nil, nil, err
	}
	r := <-ch
	if r.err != nil {
		_ = a.Close()
		return nil, nil, r.err
	}
	return a, r.c, nil
}

func c24IsTimeout(err error) bool {
	var ne stdnet.Error
	return errors.As(err, &ne) && ne.Timeout()
}

func c24ExecStream(x *vfkit.X, c c24StreamCase) {
	wa, err := c24Wrapper(c.Cfg, c.Cfg.LevelA)
	if err != nil {
		x.Failf("wrapper-rejects-valid-setting", "%v", err)
	}
	wb, err := c24Wrapper(c.Cfg, c.Cfg.LevelB)
	if err != nil {
		x.Failf("wrapper-rejects-valid-setting", "%v", err)
	}
	var rawA, rawB stdnet.Conn
	if c.Transport == 0 {
		rawA, rawB = stdnet.Pipe()
		x.Class("net.Pipe")
	} else {
		rawA, rawB, err = c24TCPPair()
		if err != nil {
			x.Class("inconclusive_no_loopback")
			return
		}
		x.Class("tcp_loopback")
	}
	x.Class(c24KindNames[c.Cfg.Kind])
	// a generous deadline guarantees termination; hitting it is inconclusive, never a violation
	dl := time.Now().Add(60 * time.Second)
	_ = rawA.SetDeadline(dl)
	_ = rawB.SetDeadline(dl)
	ends := [2]stdnet.Conn{rawA, rawB}
	if wa != nil {
		// Wrap may touch the connection (reader initialisation): do both ends concurrently
		var wg sync.WaitGroup
		var errs [2]error
		for i, w := range []ConnWrapper{wa, wb} {
			wg.Add(1)
			go func(i int, w ConnWrapper) {
				defer wg.Done()
				ends[i], errs[i] = w.Wrap([2]stdnet.Conn{rawA, rawB}[i])
			}(i, w)
		}
		wg.Wait()
		if errs[0] != nil || errs[1] != nil {
			_ = rawA.Close()
			_ = rawB.Close()
			if c24IsTimeout(errs[0]) || c24IsTimeout(errs[1]) || !time.Now().Before(dl) {
				x.Class("inconclusive_timeout")
				return
			}
			x.Failf("wrap-failed", "Wrap on a fresh connection: %v / %v", errs[0], errs[1])
		}
	}
	var want [2][]byte
	var plan [2][]c24Write
	for _, w := range c.Writes {
		want[w.Dir] = append(want[w.Dir], c24Content(w.Content, w.Seed, w.Size)...)
		plan[w.Dir] = append(plan[w.Dir], w)
	}
	type result struct {
		fp, msg   string
		timeout   bool
		secondary bool // failed because another goroutine had already torn the transport down
	}
	results := make(chan result, 8)
	// a failing side tears the transport down so that its counterpart does not wait for the deadline
	fail := func(r result) {
		results <- r
		_ = rawA.Close()
		_ = rawB.Close()
	}
	// wg: all goroutines; phase1: the four "payload" parts (writers done, readers have everything expected)
	var wg, phase1 sync.WaitGroup
	var tearDown sync.Once
	var torn = make(chan struct{})
	for dir := 0; dir < 2; dir++ {
		wg.Add(2)
		phase1.Add(2)
		go func(dir int) { // writer
			defer wg.Done()
			defer phase1.Done()
			for i, w := range plan[dir] {
				data := c24Content(w.Content, w.Seed, w.Size)
				n, err := ends[dir].Write(data)
				if err != nil || n != len(data) {
					fail(result{fp: "write-failed", msg: fmt.Sprintf("direction %d write %d (%d bytes): n=%d err=%v", dir, i, len(data), n, err), timeout: c24IsTimeout(err) || !time.Now().Before(dl), secondary: errors.Is(err, io.ErrClosedPipe) || errors.Is(err, stdnet.ErrClosed)})
					return
				}
			}
		}(dir)
		go func(dir int) { // reader on the other end
			defer wg.Done()
			p1 := sync.OnceFunc(phase1.Done)
			defer p1()
			rd := ends[1-dir]
			exp := want[dir]
			var bufs []int
			for _, w := range plan[dir] {
				bufs = append(bufs, w.ReadBuf...)
			}
			got := 0
			bi, idle := 0, 0
			var buf []byte
			for got < len(exp) {
				sz := bufs[bi%len(bufs)]
				bi++
				if sz > len(exp)-got {
					sz = len(exp) - got
				}
				if sz > len(buf) {
					buf = make([]byte, sz)
				}
				p := buf[:sz]
				n, err := rd.Read(p)
				if n > 0 && !bytes.Equal(p[:n], exp[got:got+n]) {
					fail(result{fp: "bytes-differ", msg: fmt.Sprintf("direction %d: bytes %d..%d read differ from the bytes written", dir, got, got+n)})
					return
				}
				got += n
				if err != nil && got < len(exp) {
					fail(result{fp: "written-bytes-not-readable", msg: fmt.Sprintf("direction %d: %d of %d bytes read, then %v", dir, got, len(exp), err), timeout: c24IsTimeout(err) || !time.Now().Before(dl), secondary: errors.Is(err, io.ErrClosedPipe) || errors.Is(err, stdnet.ErrClosed)})
					return
				}
				if n == 0 {
					if idle++; idle > 10000 {
						fail(result{fp: "reader-makes-no-progress", msg: fmt.Sprintf("direction %d: 10000 consecutive empty reads", dir)})
						return
					}
				} else {
					idle = 0
				}
			}
			p1()
			// keep the transport drained until everybody is done (a zero-length Write still puts
			// flush markers on the wire, and net.Pipe has no buffer): no further byte may come out
			one := make([]byte, 1)
			for {
				n, err := rd.Read(one)
				if n > 0 {
					fail(result{fp: "bytes-out-of-nothing", msg: fmt.Sprintf("direction %d: a byte was read after all %d written bytes had been consumed", dir, len(exp))})
					return
				}
				if err != nil {
					return
				}
				select {
				case <-torn:
					return
				default:
				}
			}
		}(dir)
	}
	phase1.Wait()
	// raw first: closing a wrapped end writes a trailer, which would block on net.Pipe with nobody reading
	tearDown.Do(func() { close(torn) })
	_ = rawA.Close()
	_ = rawB.Close()
	wg.Wait()
	close(results)
	if wa != nil {
		_ = ends[0].Close()
		_ = ends[1].Close()
	}
	var bad, second *result
	for r := range results {
		r := r
		switch {
		case r.timeout:
			x.Class("inconclusive_timeout")
		case r.secondary:
			second = &r
		case bad == nil || r.fp == "bytes-differ":
			bad = &r
		}
	}
	if bad == nil {
		bad = second
	}
	if bad != nil {
		x.Failf(bad.fp, "%s over %s: %s", c24KindNames[c.Cfg.Kind], []string{"net.Pipe", "loopback TCP"}[c.Transport], bad.msg)
	}
	c24Classify(x, c.Writes)
}

func TestVF_C24_stream(t *testing.T) {
	vfkit.Run(t, vfkit.Spec[c24StreamCase]{
		ID: "C24", Unit: "stream",
		Rule: "cases = compression setting x transport (net.Pipe, loopback TCP) x 1..20 writes split over the two directions, written by one goroutine per direction while the peer reads the expected number of bytes with generated buffer sizes; every byte read must equal the byte written at that position; a 60 s transport deadline only guarantees termination (counted as inconclusive); non-trivial = >=3 writes with one >=4KiB and one <=2 bytes; distinct = distinct case",
		Gen:  c24GenStream, Exec: c24ExecStream,
		ReplayReps: 3,
	})
}

//go:build verif

package net

import (
	"fmt"
	"testing"
	"time"
	"syscall"

	"pgregory.net/rapid"

	"github.com/tochemey/goakt/v4/internal/vfkit"
)

func c24cpu() time.Duration {
	var ru syscall.Rusage
	syscall.Getrusage(syscall.RUSAGE_SELF, &ru)
	return time.Duration(ru.Utime.Nano() + ru.Stime.Nano())
}

type c24ProbeCase struct{ Idx int `json:"idx"` }

func TestVF_C24_probe(t *testing.T) {
	var cases []c24PPCase
	var names []string
	for _, cfg := range []c24Cfg{{Kind: c24Gzip, LevelA: -1, LevelB: -1}, {Kind: c24Zstd, LevelA: 2, LevelB: 2}, {Kind: c24Zstd, LevelA: 1, LevelB: 1, Window: 1 << 12}, {Kind: c24Zstd, LevelA: 3, LevelB: 3}, {Kind: c24Zstd, LevelA: 4, LevelB: 4}, {Kind: c24Brotli, LevelA: 6, LevelB: 6}, {Kind: c24Brotli, LevelA: 1, LevelB: 1}, {Kind: c24Brotli, LevelA: 11, LevelB: 11}} {
		for _, nw := range []int{1, 10} {
			for _, size := range []int{2, 4096, 262144} {
				var ws []c24Write
				for i := 0; i < nw; i++ {
					ws = append(ws, c24Write{Dir: i % 2, Size: size, Content: c24Text, Seed: uint32(i), ReadBuf: []int{4096}})
				}
				cases = append(cases, c24PPCase{Cfg: cfg, Sessions: []c24Session{{Writes: ws}}, RawChunks: []int{1460}})
				names = append(names, fmt.Sprintf("%v nw=%d size=%d", cfg, nw, size))
			}
		}
	}
	i := 0
	vfkit.Run(t, vfkit.Spec[c24ProbeCase]{ID: "C24", Unit: "probe", Rule: "probe",
		Gen: func(rt *rapid.T) c24ProbeCase { _ = rapid.Bool().Draw(rt, "b"); i++; return c24ProbeCase{Idx: i % len(cases)} },
		Exec: func(x *vfkit.X, c c24ProbeCase) {
			t0, c0 := time.Now(), c24cpu()
			c24ExecPP(x, cases[c.Idx])
			fmt.Printf("%s: wall %v cpu %v\n", names[c.Idx], time.Since(t0), c24cpu()-c0)
		}})
}

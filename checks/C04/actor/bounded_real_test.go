//go:build verif

package actor

import (
	"context"
	"fmt"
	"sync"
	"testing"
	"time"

	"pgregory.net/rapid"

	"github.com/tochemey/goakt/v4/internal/vfkit"
)

// C04, BoundedMailbox (blocking ring of a third-party package): it cannot be driven by the
// cooperative scheduler (Put blocks with OS-level spinning), so it is exercised on the real
// runtime: generated producer programs against one consumer; oracle = conservation,
// per-producer FIFO, capacity bound observed by the consumer, no message after Dispose.

type c04bCase struct {
	Cap       int   `json:"cap"`
	Producers []int `json:"producers"` // enqueues per producer goroutine
	PauseEach int   `json:"pause_each"` // the consumer pauses (µs) after every k-th dequeue (0 = never): lets the ring fill
	PauseUs   int   `json:"pause_us"`
}

func c04bGen(t *rapid.T) c04bCase {
	c := c04bCase{
		Cap:       rapid.SampledFrom([]int{1, 2, 3, 4, 8}).Draw(t, "cap"),
		PauseEach: rapid.SampledFrom([]int{0, 1, 3, 7}).Draw(t, "pauseEach"),
		PauseUs:   rapid.SampledFrom([]int{20, 100, 400}).Draw(t, "pauseUs"),
	}
	np := rapid.IntRange(1, 4).Draw(t, "producers")
	for i := 0; i < np; i++ {
		c.Producers = append(c.Producers, rapid.IntRange(1, 40).Draw(t, "enqs"))
	}
	return c
}

type c04bMsg struct{ Producer, Seq int }

type c04bOutcome struct {
	got, total int
	maxLen     int64
	fail       string
	enqErr     error
	stuck      bool // the consumer (or a producer) never came back within the cap
	extra      bool
	last       []int
}

// c04bRun executes the program once. The consumer runs on its own goroutine so that a
// Dequeue that never returns is observed (stuck) instead of hanging the test process.
func c04bRun(c c04bCase) c04bOutcome {
	mb := NewBoundedMailbox(c.Cap)
	out := c04bOutcome{last: make([]int, len(c.Producers))}
	for _, n := range c.Producers {
		out.total += n
	}
	for i := range out.last {
		out.last[i] = -1
	}
	var wg sync.WaitGroup
	errs := make(chan error, len(c.Producers))
	for pi, n := range c.Producers {
		wg.Add(1)
		go func(pi, n int) {
			defer wg.Done()
			for s := 0; s < n; s++ {
				rc := new(ReceiveContext)
				rc.build(context.Background(), nil, nil, &c04bMsg{Producer: pi, Seq: s}, true)
				if err := mb.Enqueue(rc); err != nil {
					errs <- fmt.Errorf("producer %d seq %d: %w", pi, s, err)
					return
				}
			}
		}(pi, n)
	}
	var mu sync.Mutex
	consumerDone := make(chan struct{})
	stop := make(chan struct{})
	go func() {
		defer close(consumerDone)
		got := 0
		for got < out.total {
			select {
			case <-stop:
				return
			default:
			}
			l := mb.Len()
			rc := mb.Dequeue()
			mu.Lock()
			if l > out.maxLen {
				out.maxLen = l
			}
			if rc == nil {
				mu.Unlock()
				time.Sleep(5 * time.Microsecond)
				continue
			}
			m, ok := rc.Message().(*c04bMsg)
			switch {
			case !ok:
				out.fail = fmt.Sprintf("dequeued a context whose message is %T", rc.Message())
			case m.Seq != out.last[m.Producer]+1:
				if out.fail == "" {
					out.fail = fmt.Sprintf("producer %d: dequeued seq %d after seq %d", m.Producer, m.Seq, out.last[m.Producer])
				}
				out.last[m.Producer] = m.Seq
			default:
				out.last[m.Producer] = m.Seq
			}
			got++
			out.got = got
			mu.Unlock()
			if c.PauseEach > 0 && got%c.PauseEach == 0 {
				time.Sleep(time.Duration(c.PauseUs) * time.Microsecond)
			}
		}
	}()
	select {
	case <-consumerDone:
	case <-time.After(15 * time.Second):
		out.stuck = true
	}
	close(stop)
	prodDone := make(chan struct{})
	go func() { wg.Wait(); close(prodDone) }()
	select {
	case <-prodDone:
	case <-time.After(5 * time.Second):
		out.stuck = true
	}
	mb.Dispose() // frees producers that are still blocked in Put
	select {
	case <-prodDone:
	case <-time.After(5 * time.Second):
	}
	select {
	case out.enqErr = <-errs:
	default:
	}
	if !out.stuck {
		out.extra = mb.Dequeue() != nil
	}
	mu.Lock()
	defer mu.Unlock()
	cp := out
	cp.last = append([]int(nil), out.last...)
	return cp
}

func c04bExec(x *vfkit.X, c c04bCase) {
	o := c04bRun(c)
	if c.Cap < o.total {
		x.Class("ring_smaller_than_traffic")
	}
	if o.maxLen >= int64(c.Cap) {
		x.Class("ring_seen_full")
	}
	if len(c.Producers) >= 2 && c.Cap < o.total {
		x.NonTrivial()
	}
	if o.fail != "" {
		fp := "bounded:garbage-dequeued"
		if len(o.fail) > 8 && o.fail[:8] == "producer" {
			fp = "bounded:order-or-duplicate-or-loss"
		}
		x.Failf(fp, "%s (cap=%d producers=%v)", o.fail, c.Cap, c.Producers)
	}
	if o.stuck {
		// a stall is the only signal here: three strikes (identical program, fresh mailbox)
		for i := 0; i < 2; i++ {
			if again := c04bRun(c); !again.stuck {
				x.Class("inconclusive_stalled_once")
				return
			}
		}
		x.Failf("bounded:consumer-or-producer-never-returns", "in 3 of 3 executions the consumer's Dequeue (or a producer's Enqueue) never returned: %d of %d messages dequeued (cap=%d producers=%v last=%v)", o.got, o.total, c.Cap, c.Producers, o.last)
	}
	eff := int64(2)
	for eff < int64(c.Cap) {
		eff *= 2
	}
	if o.maxLen > eff {
		x.Failf("bounded:capacity-exceeded", "Len() reported %d: more than the ring can hold for capacity %d (%d cells)", o.maxLen, c.Cap, eff)
	}
	if o.maxLen > int64(c.Cap) {
		x.Failf("bounded:holds-more-than-configured-capacity", "Len() reported %d queued messages with NewBoundedMailbox(%d): the underlying ring rounds the capacity up to a power of two (%d cells) and the mailbox does not enforce the configured bound", o.maxLen, c.Cap, eff)
	}
	if o.enqErr != nil {
		x.Failf("bounded:enqueue-error-before-dispose", "%v (cap=%d)", o.enqErr, c.Cap)
	}
	if o.got < o.total {
		x.Failf("bounded:accepted-message-never-dequeued", "%d of %d enqueued messages were never dequeued although every producer returned (cap=%d producers=%v last=%v)", o.total-o.got, o.total, c.Cap, c.Producers, o.last)
	}
	if o.extra {
		x.Failf("bounded:message-after-dispose", "Dequeue returned a message after every message was consumed and the mailbox was disposed")
	}
}

func TestVF_C04_bounded(t *testing.T) {
	vfkit.Run(t, vfkit.Spec[c04bCase]{
		ID: "C04", Unit: "bounded",
		Rule: "cases = BoundedMailbox(capacity 1-8) on the real runtime: 1-4 producer goroutines x 1-40 blocking Enqueue, one consumer that pauses per a generated pattern so the ring fills; non-trivial = >=2 producers and more traffic than capacity; distinct = distinct programs",
		Gen:  c04bGen, Exec: c04bExec, ReplayReps: 20,
	})
}

//go:build verif

package actor

import (
	"context"
	"fmt"
	"os"
	"sort"
	"strings"
	"testing"

	"pgregory.net/rapid"

	"github.com/tochemey/goakt/v4/internal/address"
	"github.com/tochemey/goakt/v4/internal/vfe3"
	"github.com/tochemey/goakt/v4/internal/vfkit"
	"github.com/tochemey/goakt/v4/internal/vfsched"
)

// C04 — every mailbox implementation behaves like its sequential specification.
//
// Engine E3: the mailbox files are import-swapped so that every atomic / lock
// operation is a scheduling point of the deterministic scheduler; producers and
// one consumer per mailbox are logical threads and the interleaving is drawn
// from rapid (pre-emption bounded). Oracle: conservation + exhaustive
// linearizability check of the completed history against the documented queue.

type c04Enq struct {
	MB     int `json:"mb"`
	Prio   int `json:"prio"`
	Sender int `json:"sender"`
}

type c04Case struct {
	Kind      string     `json:"kind"`
	Cap       int        `json:"cap"`
	PrioFn    int        `json:"prio_fn"` // 0: smaller prio first, 1: larger first, 2: constant false
	NumMB     int        `json:"num_mb"`
	Producers [][]c04Enq `json:"producers"`
	Consumers [][]int    `json:"consumers"` // per mailbox: 0 Dequeue, 1 IsEmpty, 2 Len
	PoolDepth int        `json:"pool_depth"`
}

type c04Msg struct {
	ID, Prio, MB, Sender int
}

var c04Kinds = []string{"unbounded", "fair", "segmented", "nbbounded", "upriority", "ustable", "bpriority", "bstable"}

func c04Bounded(kind string) bool {
	return kind == "nbbounded" || kind == "bpriority" || kind == "bstable"
}

func c04GenKind(kind string) func(t *rapid.T) c04Case {
	return func(t *rapid.T) c04Case {
		c := c04Case{Kind: kind}
		if c04Bounded(kind) {
			c.Cap = rapid.IntRange(1, 4).Draw(t, "cap")
		}
		c.PrioFn = rapid.IntRange(0, 2).Draw(t, "prioFn")
		c.NumMB = rapid.SampledFrom([]int{1, 1, 2}).Draw(t, "numMB")
		c.PoolDepth = rapid.IntRange(0, 3).Draw(t, "poolDepth")
		np := rapid.IntRange(2, 4).Draw(t, "producers")
		maxEnq, maxCons := 3, 7
		if kind == "segmented" && rapid.IntRange(0, 1).Draw(t, "rollover") == 1 {
			// segment roll-over shape (segmentSize is 4 in the overlay): enough enqueues on one
			// mailbox to fill a segment and overflow it from two producers, and a consumer that
			// drains the full segment and moves on while those producers are in flight
			np = rapid.IntRange(3, 4).Draw(t, "producersRoll")
			c.NumMB = 1
			maxEnq, maxCons = 4, 11
		}
		// the fair mailbox's interesting races need several goroutines on ONE sender's
		// sub-queue: bias towards few sender identities
		nSenders := rapid.SampledFrom([]int{1, 1, 1, 2, 2, 3}).Draw(t, "senders")
		for p := 0; p < np; p++ {
			n := rapid.IntRange(1, maxEnq).Draw(t, "enqs")
			var ops []c04Enq
			for i := 0; i < n; i++ {
				ops = append(ops, c04Enq{
					MB:     rapid.IntRange(0, c.NumMB-1).Draw(t, "mb"),
					Prio:   rapid.IntRange(0, 2).Draw(t, "prio"),
					Sender: rapid.IntRange(0, nSenders-1).Draw(t, "sender"),
				})
			}
			c.Producers = append(c.Producers, ops)
		}
		for m := 0; m < c.NumMB; m++ {
			n := rapid.IntRange(1, maxCons).Draw(t, "consumerOps")
			script := make([]int, n)
			for i := range script {
				script[i] = rapid.SampledFrom([]int{0, 0, 0, 0, 1, 1, 2}).Draw(t, "cop")
			}
			c.Consumers = append(c.Consumers, script)
		}
		return c
	}
}

func c04PrioFunc(kind int) PriorityFunc {
	return func(a, b any) bool {
		x, y := a.(*c04Msg), b.(*c04Msg)
		switch kind {
		case 0:
			return x.Prio < y.Prio
		case 1:
			return x.Prio > y.Prio
		default:
			return false
		}
	}
}

func c04Less(kind, a, b int) bool {
	switch kind {
	case 0:
		return a < b
	case 1:
		return a > b
	default:
		return false
	}
}

func c04NewMailbox(c c04Case) Mailbox {
	pf := c04PrioFunc(c.PrioFn)
	switch c.Kind {
	case "unbounded":
		return NewUnboundedMailbox()
	case "fair":
		return NewUnboundedFairMailbox()
	case "segmented":
		return NewUnboundedSegmentedMailbox()
	case "nbbounded":
		return NewNonBlockingBoundedMailbox(c.Cap)
	case "upriority":
		return NewUnboundedPriorityMailBox(pf)
	case "ustable":
		return NewUnboundedStablePriorityMailbox(pf)
	case "bpriority":
		return NewBoundedPriorityMailbox(c.Cap, pf)
	case "bstable":
		return NewBoundedStablePriorityMailbox(c.Cap, pf)
	}
	panic("unknown kind " + c.Kind)
}

// effective capacity per the documentation (the ring rounds up to a power of two, minimum 2)
func c04EffCap(c c04Case) int {
	if c.Kind == "nbbounded" {
		return int(nextPowerOfTwo(c.Cap))
	}
	return c.Cap
}

const (
	c04OpEnq = iota
	c04OpDeq
	c04OpEmpty
)

type c04Item struct{ id, prio, sender int }

type c04Relax struct {
	empty bool // nil / empty reports allowed while an accepted enqueue overlaps the call
	full  bool // a rejection allowed while another enqueue or a successful dequeue overlaps the call
}

// c04Step is the sequential specification. st is the queue content in arrival order.
//
// Deliberate tolerance of the base specification: IsEmpty()==false is accepted
// whenever any Enqueue overlaps the call. The property forbids reporting *empty*
// while a completed enqueue is queued; reporting non-empty slightly early (a
// producer has bumped the counter but not yet published) is not claimed wrong by
// the property and is documented as best-effort by the mailboxes.
func c04Step(c c04Case, relax c04Relax, overlapsEnq, overlapsRej, overlapsDeq map[int]bool) func(st []c04Item, op vfe3.Op) ([]c04Item, bool) {
	capacity := c04EffCap(c)
	return func(st []c04Item, op vfe3.Op) ([]c04Item, bool) {
		switch op.Arg[0] {
		case c04OpEnq:
			full := c04Bounded(c.Kind) && len(st) >= capacity
			if op.Res[0] == 1 { // accepted
				if full {
					return st, false
				}
				ns := append(append([]c04Item(nil), st...), c04Item{id: op.Res[1], prio: op.Arg[1], sender: op.Arg[2]})
				return ns, true
			}
			if full || (relax.full && (overlapsRej[op.Inv] || overlapsEnq[op.Inv] || overlapsDeq[op.Inv])) {
				return st, true
			}
			return st, false
		case c04OpDeq:
			id := op.Res[0]
			if id < 0 {
				if len(st) == 0 || (relax.empty && overlapsEnq[op.Inv]) {
					return st, true
				}
				return st, false
			}
			idx := -1
			for i, it := range st {
				if it.id == id {
					idx = i
				}
			}
			if idx < 0 {
				return st, false
			}
			it := st[idx]
			switch c.Kind {
			case "unbounded", "segmented", "nbbounded":
				if idx != 0 {
					return st, false
				}
			case "fair": // per-sender FIFO; any non-empty sender may be served
				for i := 0; i < idx; i++ {
					if st[i].sender == it.sender {
						return st, false
					}
				}
			case "upriority", "bpriority": // no strictly better element may be present
				for _, o := range st {
					if c04Less(c.PrioFn, o.prio, it.prio) {
						return st, false
					}
				}
			case "ustable", "bstable": // best priority, ties by arrival
				for i, o := range st {
					if c04Less(c.PrioFn, o.prio, it.prio) {
						return st, false
					}
					if i < idx && !c04Less(c.PrioFn, it.prio, o.prio) {
						return st, false
					}
				}
			}
			ns := append(append([]c04Item(nil), st[:idx]...), st[idx+1:]...)
			return ns, true
		case c04OpEmpty:
			if (op.Res[0] == 1) == (len(st) == 0) {
				return st, true
			}
			if op.Res[0] == 1 && relax.empty && overlapsEnq[op.Inv] {
				return st, true
			}
			if op.Res[0] == 0 && (overlapsEnq[op.Inv] || overlapsRej[op.Inv]) {
				return st, true
			}
			return st, false
		}
		return st, false
	}
}

func c04Key(st []c04Item) string {
	var b strings.Builder
	for _, it := range st {
		fmt.Fprintf(&b, "%d,", it.id)
	}
	return b.String()
}

func c04ResetPools(depth int) {
	for {
		select {
		case <-contextCh:
			continue
		default:
		}
		break
	}
	for i := 0; i < depth; i++ {
		contextCh <- new(ReceiveContext)
	}
	segmentPool.Drain()
}

func c04Exec(x *vfkit.X, c c04Case) {
	c04ResetPools(c.PoolDepth)
	defer c04ResetPools(64)

	mbs := make([]Mailbox, c.NumMB)
	for i := range mbs {
		mbs[i] = c04NewMailbox(c)
	}
	senders := make([]*PID, 3)
	for i := range senders {
		senders[i] = &PID{path: newPath(address.New(fmt.Sprintf("s%d", i), "vf", "127.0.0.1", 1))}
	}
	clock := &vfe3.Clock{}
	hist := make([][]vfe3.Op, c.NumMB) // per mailbox
	nextID := 0
	type enqRec struct {
		mb, id   int
		accepted bool
	}
	var enqs []enqRec
	var garbage []string

	s := vfsched.New()
	s.MaxSteps = 6000
	for pi, ops := range c.Producers {
		pi, ops := pi, ops
		s.Go(fmt.Sprintf("prod%d", pi), func() {
			for _, e := range ops {
				id := nextID
				nextID++
				rc := getContext()
				rc.build(context.Background(), senders[e.Sender], nil, &c04Msg{ID: id, Prio: e.Prio, MB: e.MB, Sender: e.Sender}, true)
				inv := clock.Tick()
				c04DebugSeg(fmt.Sprintf("t%d enq %d invoke", pi, id), mbs[e.MB])
				err := mbs[e.MB].Enqueue(rc)
				ret := clock.Tick()
				c04DebugSeg(fmt.Sprintf("t%d enq %d return", pi, id), mbs[e.MB])
				acc := 0
				if err == nil {
					acc = 1
				}
				hist[e.MB] = append(hist[e.MB], vfe3.Op{Inv: inv, Ret: ret, Thread: pi, Name: "enq", Arg: [3]int{c04OpEnq, e.Prio, e.Sender}, Res: [2]int{acc, id}})
				enqs = append(enqs, enqRec{mb: e.MB, id: id, accepted: err == nil})
				vfsched.OpEnd()
			}
		})
	}
	deqOnce := func(mi, thread int) {
		inv := clock.Tick()
		c04DebugSeg(fmt.Sprintf("t%d deq invoke", thread), mbs[mi])
		rc := mbs[mi].Dequeue()
		ret := clock.Tick()
		c04DebugSeg(fmt.Sprintf("t%d deq return", thread), mbs[mi])
		id := -1
		if rc != nil {
			m, ok := rc.Message().(*c04Msg)
			if !ok || m == nil {
				garbage = append(garbage, fmt.Sprintf("mailbox %d returned a context whose message is %T", mi, rc.Message()))
				id = -2
			} else {
				id = m.ID
				if m.MB != mi {
					garbage = append(garbage, fmt.Sprintf("message %d enqueued to mailbox %d was dequeued from mailbox %d", m.ID, m.MB, mi))
				}
			}
		}
		hist[mi] = append(hist[mi], vfe3.Op{Inv: inv, Ret: ret, Thread: thread, Name: "deq", Arg: [3]int{c04OpDeq}, Res: [2]int{id}})
	}
	for mi, script := range c.Consumers {
		mi, script := mi, script
		s.Go(fmt.Sprintf("cons%d", mi), func() {
			for _, k := range script {
				switch k {
				case 0:
					deqOnce(mi, 100+mi)
				case 1:
					inv := clock.Tick()
					e := mbs[mi].IsEmpty()
					ret := clock.Tick()
					r := 0
					if e {
						r = 1
					}
					hist[mi] = append(hist[mi], vfe3.Op{Inv: inv, Ret: ret, Thread: 100 + mi, Name: "isEmpty", Arg: [3]int{c04OpEmpty}, Res: [2]int{r}})
				default:
					_ = mbs[mi].Len() // documented as a best-effort snapshot: exercised, not judged
				}
				vfsched.OpEnd()
			}
		})
	}
	s.KeepTrace = true
	out := s.Run(vfe3.PickerWith(x, vfe3.Opts{PreemptPct: 45, MaxYields: 40, AvoidRepick: true}))
	for _, th := range s.Threads() {
		if th.Panic != nil {
			x.Failf(c.Kind+":panic", "thread %s panicked: %v\n%s", th.Name, th.Panic, th.Stack)
		}
	}
	switch out {
	case vfsched.StepBudget:
		x.Class("inconclusive_step_budget")
		return
	case vfsched.Deadlock:
		x.Failf(c.Kind+":deadlock", "no runnable thread: %s", s.Describe())
	}
	// sequential final drain (no scheduler active: shims pass through)
	if os.Getenv("VF_C04_DEBUG") != "" {
		for mi := range mbs {
			if sm, ok := mbs[mi].(*UnboundedSegmentedMailbox); ok {
				var parts []string
				seen := map[*segment]bool{}
				for seg := sm.head.Load(); seg != nil && !seen[seg]; seg = seg.next.Load() {
					seen[seg] = true
					var d []string
					for i := range seg.data {
						if v := seg.data[i].Load(); v != nil {
							d = append(d, fmt.Sprint(v.Message().(*c04Msg).ID))
						} else {
							d = append(d, "-")
						}
					}
					parts = append(parts, fmt.Sprintf("seg%p(w=%d d=%d data=%v)", seg, seg.writeIdx.Load(), seg.deqIdx.Load(), d))
				}
				fmt.Printf("DEBUG mb%d segments from head: %v tail=%p len=%d\n", mi, parts, sm.tail.Load(), sm.Len())
			}
			if fm, ok := mbs[mi].(*UnboundedFairMailbox); ok {
				var parts []string
				for n := fm.active.head.Load(); n != nil; n = (*senderNode)(n.next) {
					if v := n.value.Load(); v != nil {
						parts = append(parts, fmt.Sprintf("sq(pending=%d active=%v empty=%v)", v.pending, v.active.Load(), v.mailbox.IsEmpty()))
					} else {
						parts = append(parts, "dummy")
					}
				}
				fmt.Printf("DEBUG mb%d active list before final drain: %v len=%d\n", mi, parts, fm.Len())
			}
		}
	}
	// The drain runs as a single logical thread under its own scheduler with a step budget, so
	// that a Dequeue that never returns (e.g. a self-linked segment) is a reported outcome
	// instead of a hung test process.
	drain := vfsched.New()
	drain.MaxSteps = 4000
	drain.Go("final-drain", func() {
		for mi := range mbs {
			nils := 0
			for i := 0; i < 40 && nils < 2; i++ {
				before := len(hist[mi])
				deqOnce(mi, 200+mi)
				if hist[mi][before].Res[0] == -1 {
					nils++
				} else {
					nils = 0
				}
			}
		}
	})
	dout := drain.Run(func(r []*vfsched.Thread) (int, int) { return 0, -1 })
	for _, th := range drain.Threads() {
		if th.Panic != nil {
			x.Failf(c.Kind+":panic", "final drain panicked: %v\n%s", th.Panic, th.Stack)
		}
	}
	if dout != vfsched.Completed {
		x.Failf(c.Kind+":dequeue-does-not-terminate", "the final sequential drain (single thread, no concurrency) did not finish within %d scheduling steps: a Dequeue loops forever; history so far: %s", drain.MaxSteps, c04Hist(hist))
	}

	// ---- classification of the case
	overlap := false
	for mi := range hist {
		h := hist[mi]
		for i := range h {
			for j := range h {
				if h[i].Thread != h[j].Thread && h[i].Inv < h[j].Ret && h[j].Inv < h[i].Ret && h[i].Thread < 200 && h[j].Thread < 200 {
					overlap = true
				}
			}
		}
	}
	if overlap {
		x.Class("overlapping_ops")
	}
	if s.Preempts > 0 {
		x.Class("preempted")
	}
	if overlap && s.Preempts > 0 && len(c.Producers) >= 2 {
		x.NonTrivial()
	}
	if c.NumMB == 2 {
		x.Class("two_mailboxes")
	}
	x.Note("preempts", s.Preempts)
	x.Note("steps", s.Steps)

	// ---- oracle 1: conservation
	if len(garbage) > 0 {
		fp := c.Kind + ":garbage-dequeued"
		if strings.Contains(garbage[0], "was dequeued from mailbox") {
			fp = c.Kind + ":dequeued-from-other-mailbox"
		}
		x.Failf(fp, "%s\nhistory: %s", strings.Join(garbage, "; "), c04Hist(hist))
	}
	seen := map[int]int{}
	for mi := range hist {
		for _, op := range hist[mi] {
			if op.Arg[0] == c04OpDeq && op.Res[0] >= 0 {
				seen[op.Res[0]]++
			}
		}
	}
	for _, e := range enqs {
		switch {
		case e.accepted && seen[e.id] == 0:
			x.Failf(c.Kind+":accepted-message-never-dequeued", "message %d (mailbox %d) was accepted but never dequeued, also not by the final sequential drain\nhistory: %s", e.id, e.mb, c04Hist(hist))
		case e.accepted && seen[e.id] > 1:
			x.Failf(c.Kind+":message-dequeued-twice", "message %d dequeued %d times\nhistory: %s", e.id, seen[e.id], c04Hist(hist))
		case !e.accepted && seen[e.id] > 0:
			x.Failf(c.Kind+":rejected-message-dequeued", "message %d was rejected but dequeued\nhistory: %s", e.id, c04Hist(hist))
		}
	}

	// ---- oracle 2: linearizability per mailbox (compositional)
	for mi := range hist {
		h := hist[mi]
		if len(h) > 44 {
			x.Class("history_too_long_skipped")
			continue
		}
		overlapsEnq, overlapsRej, overlapsDeq := map[int]bool{}, map[int]bool{}, map[int]bool{}
		for _, o := range h {
			for _, e := range h {
				if e.Inv == o.Inv {
					continue
				}
				if e.Arg[0] == c04OpDeq && e.Res[0] >= 0 && e.Inv < o.Ret && o.Inv < e.Ret {
					overlapsDeq[o.Inv] = true
				}
				if e.Arg[0] != c04OpEnq {
					continue
				}
				if e.Inv < o.Ret && o.Inv < e.Ret {
					if e.Res[0] == 1 {
						overlapsEnq[o.Inv] = true
					} else {
						overlapsRej[o.Inv] = true
					}
				}
			}
		}
		try := func(r c04Relax) bool {
			return vfe3.Linearizable(h, []c04Item(nil), c04Step(c, r, overlapsEnq, overlapsRej, overlapsDeq), c04Key)
		}
		if try(c04Relax{}) {
			continue
		}
		fpEmpty := c.Kind + ":empty-reported-while-earlier-enqueue-in-flight"
		fpFull := c.Kind + ":full-reported-while-concurrent-operation-holds-a-slot"
		if try(c04Relax{empty: true}) {
			x.Failf(fpEmpty, "mailbox %d: Dequeue()=nil or IsEmpty()=true while a completed Enqueue had not been dequeued (an overlapping Enqueue was still in flight); history: %s", mi, vfe3.FormatOps(h))
		}
		if try(c04Relax{full: true}) {
			x.Failf(fpFull, "mailbox %d: ErrMailboxFull while the mailbox was not full (a concurrent operation held a slot of the length counter without a visible message: a rejected Enqueue before its decrement, an accepted Enqueue before its push, or a Dequeue that has popped but not yet decremented); history: %s", mi, vfe3.FormatOps(h))
		}
		if try(c04Relax{empty: true, full: true}) {
			// both relaxations needed: report whichever is not yet a known finding
			if !x.Known(fpEmpty) {
				x.Failf(fpEmpty, "mailbox %d: empty report while an Enqueue was in flight (and a spurious full); history: %s", mi, vfe3.FormatOps(h))
			}
			x.Failf(fpFull, "mailbox %d: spurious ErrMailboxFull (and an empty report during an in-flight Enqueue); history: %s", mi, vfe3.FormatOps(h))
		}
		x.Failf(c.Kind+":not-linearizable", "mailbox %d (%s cap=%d prioFn=%d): history has no linearization: %s", mi, c.Kind, c04EffCap(c), c.PrioFn, vfe3.FormatOps(h))
	}
}

func c04DebugSeg(tag string, mb Mailbox) {
	if os.Getenv("VF_C04_DEBUG") == "" {
		return
	}
	sm, ok := mb.(*UnboundedSegmentedMailbox)
	if !ok {
		return
	}
	desc := func(seg *segment) string {
		if seg == nil {
			return "nil"
		}
		return fmt.Sprintf("%p{w=%d d=%d next=%p}", seg, seg.writeIdx.Peek(), seg.deqIdx.Peek(), seg.next.Peek())
	}
	fmt.Printf("DEBUG %-28s head=%s tail=%s\n", tag, desc(sm.head.Peek()), desc(sm.tail.Peek()))
}

func c04Hist(hist [][]vfe3.Op) string {
	var parts []string
	for mi, h := range hist {
		parts = append(parts, fmt.Sprintf("mb%d: %s", mi, vfe3.FormatOps(h)))
	}
	sort.Strings(parts)
	return strings.Join(parts, " | ")
}

func c04Run(t *testing.T, kind string) {
	vfkit.Run(t, vfkit.Spec[c04Case]{
		ID: "C04", Unit: kind,
		Rule: "cases = 2-4 producer threads x 1-3 Enqueue (3 priorities, 1-3 sender ids, 1-2 mailboxes of the kind sharing the context/segment pools) + one consumer thread per mailbox running a Dequeue/IsEmpty/Len script, under a drawn pre-emption-bounded interleaving of every atomic/lock operation; non-trivial = >=2 producers, two operations of different threads overlap in time on one mailbox and >=1 forced pre-emption occurred; distinct = distinct (program, schedule)",
		Gen:  c04GenKind(kind), Exec: c04Exec,
	})
}

func TestVF_C04_unbounded(t *testing.T) { c04Run(t, "unbounded") }
func TestVF_C04_fair(t *testing.T)      { c04Run(t, "fair") }
func TestVF_C04_segmented(t *testing.T) { c04Run(t, "segmented") }
func TestVF_C04_nbbounded(t *testing.T) { c04Run(t, "nbbounded") }
func TestVF_C04_upriority(t *testing.T) { c04Run(t, "upriority") }
func TestVF_C04_ustable(t *testing.T)   { c04Run(t, "ustable") }
func TestVF_C04_bpriority(t *testing.T) { c04Run(t, "bpriority") }
func TestVF_C04_bstable(t *testing.T)   { c04Run(t, "bstable") }

//go:build verif

package actor

import (
	"context"
	"errors"
	"fmt"
	"sync"
	"testing"
	"time"

	"github.com/reugn/go-quartz/quartz"
	"pgregory.net/rapid"

	gerrors "github.com/tochemey/goakt/v4/errors"
	"github.com/tochemey/goakt/v4/internal/cluster"
	"github.com/tochemey/goakt/v4/internal/vfkit"
	"github.com/tochemey/goakt/v4/log"
	"github.com/tochemey/goakt/v4/test/data/testpb"
)

// ---------------------------------------------------------------------------
// C19 / cron: in cluster mode a cron schedule delivers each tick at most once
// across all nodes (documented: exactly once per tick; a tick older than the
// claim TTL is never delivered).
//
// Three real actor systems play the nodes. Their cluster engine is replaced by
// a harness-owned registry that implements only ClaimScheduleFire with the
// documented contract (atomic put-if-absent per key, entry expires after ttl,
// optionally failing with a transport error). The harness invokes each node's
// job function (scheduler.makeJobFn with the claim ScheduleWithCron builds in
// cluster mode) for the same tick run time, concurrently, with generated start
// skews; ticks are fresh, stale (older than the ttl: the winner's entry has
// expired) or shared by two references.
// ---------------------------------------------------------------------------

// c19Registry is the simulated cluster-wide claim table.
type c19Registry struct {
	mu      sync.Mutex
	expiry  map[string]time.Time
	grants  map[string]int // key -> number of callers that were told "you won"
	asked   map[string]int
	failing map[int]bool // node index -> ClaimScheduleFire fails with a transport error (per tick)
	now     func() time.Time
}

func (r *c19Registry) claim(node int, key string, ttl time.Duration) error {
	r.mu.Lock()
	defer r.mu.Unlock()
	r.asked[key]++
	if r.failing[node] {
		return errors.New("c19: simulated registry transport error")
	}
	if key == "" {
		return errors.New("schedule fire key is empty")
	}
	now := r.now()
	if exp, ok := r.expiry[key]; ok && now.Before(exp) {
		return cluster.ErrScheduleFireClaimed
	}
	r.expiry[key] = now.Add(ttl)
	r.grants[key]++
	return nil
}

// c19Node is what a node sees of the cluster: only the claim is implemented; any other call
// would dereference the nil embedded interface (none is reachable while clusterEnabled is false).
type c19Node struct {
	cluster.Cluster
	reg   *c19Registry
	index int
}

func (n *c19Node) ClaimScheduleFire(_ context.Context, key string, ttl time.Duration) error {
	return n.reg.claim(n.index, key, ttl)
}

type c19CronTick struct {
	Ref      int   `json:"ref"`       // 0..1: which reference
	Time     int   `json:"time"`      // 0..2: which run time (ticks of different references may share one)
	Stale    bool  `json:"stale"`     // the run time lies further back than the claim ttl
	LagSec   int   `json:"lag_sec"`   // fresh: 0..ttl-10 ; stale: ttl+10..ttl+3600
	Nodes    []int `json:"nodes"`     // participating nodes (indices into the 3 systems)
	SkewUs   []int `json:"skew_us"`   // per participating node: delay before it runs the job function
	Failing  []int `json:"failing"`   // nodes whose registry call fails for this tick
	Repeated bool  `json:"repeated"`  // the winner's node runs the same tick a second time (quartz never does; a lagging duplicate)
}

type c19CronCase struct {
	TTLSec int           `json:"ttl_sec"`
	Ticks  []c19CronTick `json:"ticks"`
}

func c19CronGen(t *rapid.T) c19CronCase {
	c := c19CronCase{TTLSec: rapid.SampledFrom([]int{60, 61, 300, 3600, 86400}).Draw(t, "ttl_sec")}
	n := rapid.IntRange(1, 5).Draw(t, "ticks")
	for i := 0; i < n; i++ {
		tk := c19CronTick{Ref: rapid.IntRange(0, 1).Draw(t, "ref"), Time: rapid.IntRange(0, 2).Draw(t, "time")}
		tk.Stale = rapid.IntRange(0, 3).Draw(t, "stale") == 0
		if tk.Stale {
			tk.LagSec = c.TTLSec + rapid.SampledFrom([]int{10, 60, 3600}).Draw(t, "stale_lag")
		} else {
			tk.LagSec = rapid.IntRange(0, c.TTLSec-10).Draw(t, "fresh_lag")
			if rapid.IntRange(0, 2).Draw(t, "on_time") > 0 {
				tk.LagSec = 0
			}
		}
		tk.Nodes = rapid.SampledFrom([][]int{{0, 1, 2}, {0, 1, 2}, {0, 1}, {1, 2}, {2, 0}, {1}}).Draw(t, "nodes")
		for range tk.Nodes {
			tk.SkewUs = append(tk.SkewUs, rapid.SampledFrom([]int{0, 0, 0, 10, 100, 500}).Draw(t, "skew_us"))
		}
		if rapid.IntRange(0, 4).Draw(t, "fault") == 0 {
			tk.Failing = []int{tk.Nodes[rapid.IntRange(0, len(tk.Nodes)-1).Draw(t, "failing")]}
		}
		tk.Repeated = rapid.IntRange(0, 5).Draw(t, "repeated") == 0
		c.Ticks = append(c.Ticks, tk)
	}
	return c
}

// ---- fixture ---------------------------------------------------------------------------

type c19CronFixture struct {
	nodes []*actorSystem
	views []*c19Node
	err   error
}

var (
	c19CronOnce sync.Once
	c19CronFix  c19CronFixture
)

func c19CronNodes(t *testing.T) *c19CronFixture {
	c19CronOnce.Do(func() {
		f := &c19CronFix
		for i := 0; i < 3; i++ {
			sys, err := NewActorSystem(fmt.Sprintf("c19n%d", i), WithLogger(log.DiscardLogger))
			if err != nil {
				f.err = err
				return
			}
			if err := sys.Start(context.Background()); err != nil {
				f.err = err
				return
			}
			t.Cleanup(func() { _ = sys.Stop(context.Background()) })
			as := sys.(*actorSystem)
			view := &c19Node{index: i}
			// the scheduler asks actorSystem.getCluster(); clusterEnabled stays false so nothing else uses it
			as.locker.Lock()
			as.cluster = view
			as.locker.Unlock()
			f.nodes = append(f.nodes, as)
			f.views = append(f.views, view)
		}
	})
	return &c19CronFix
}

type c19Counter struct {
	mu sync.Mutex
	n  map[int64]int // reference id -> deliveries
}

type c19CronRecv struct{ c *c19Counter }

func (r *c19CronRecv) PreStart(*Context) error { return nil }
func (r *c19CronRecv) PostStop(*Context) error { return nil }
func (r *c19CronRecv) Receive(ctx *ReceiveContext) {
	switch m := ctx.Message().(type) {
	case *testpb.TestSum:
		r.c.mu.Lock()
		r.c.n[m.GetA()]++
		r.c.mu.Unlock()
	case *testpb.TestPing:
		ctx.Response(new(testpb.TestPong))
	}
}

func c19CronExec(fix *c19CronFixture) func(x *vfkit.X, c c19CronCase) {
	return func(x *vfkit.X, c c19CronCase) {
		if fix.err != nil {
			x.Class("infra_unavailable")
			return
		}
		ctx := context.Background()
		seq := c19Seq.Add(1)
		ttl := time.Duration(c.TTLSec) * time.Second
		reg := &c19Registry{expiry: map[string]time.Time{}, grants: map[string]int{}, asked: map[string]int{}, failing: map[int]bool{}, now: time.Now}
		for _, v := range fix.views {
			v.reg = reg
		}
		// every node registers both references (same reference on every node, as ScheduleWithCron requires in cluster mode)
		refs := []string{fmt.Sprintf("c19-cron-%d-a", seq), fmt.Sprintf("c19-cron-%d-b", seq)}
		counters := make([]*c19Counter, len(fix.nodes))
		recvs := make([]*PID, len(fix.nodes))
		jobs := make([][]func(context.Context) (bool, error), len(fix.nodes))
		for ni, sys := range fix.nodes {
			counters[ni] = &c19Counter{n: map[int64]int{}}
			pid, err := sys.Spawn(ctx, fmt.Sprintf("c19-cron-%d", seq), &c19CronRecv{c: counters[ni]}, WithLongLived())
			if err != nil {
				x.Class("inconclusive_spawn_failed")
				return
			}
			recvs[ni] = pid
			defer func() { _ = pid.Shutdown(context.Background()) }()
			for ri, ref := range refs {
				cfg := newScheduleConfig(WithReference(ref))
				claim := &scheduleFireClaim{reference: ref, ttl: ttl}
				jobs[ni] = append(jobs[ni], sys.scheduler.makeJobFn(pid, &testpb.TestSum{A: int64(ri)}, cfg, claim))
			}
		}
		base := time.Now().Truncate(time.Second)
		total := func(ri int) int {
			n := 0
			for _, cn := range counters {
				cn.mu.Lock()
				n += cn.n[int64(ri)]
				cn.mu.Unlock()
			}
			return n
		}
		seen := map[string]bool{} // (ref, run time) pairs already played: each tick is played once per node
		racing := false
		for ti, tk := range c.Ticks {
			// distinct run times per (Time, staleness); ticks of both references may share one
			runTime := base.Add(-time.Duration(tk.LagSec)*time.Second - time.Duration(tk.Time)*time.Millisecond)
			key := fmt.Sprintf("%s@%d", refs[tk.Ref], runTime.UnixNano())
			if seen[key] {
				x.Class("tick_already_played")
				continue
			}
			seen[key] = true
			reg.mu.Lock()
			reg.failing = map[int]bool{}
			for _, n := range tk.Failing {
				reg.failing[n] = true
			}
			reg.mu.Unlock()
			before := total(tk.Ref)
			otherBefore := total(1 - tk.Ref)
			tctx := context.WithValue(ctx, quartz.JobMetadataContextKey, quartz.JobMetadata{RunTime: runTime.UnixNano()})
			type res struct {
				ok  bool
				err error
			}
			results := make([]res, len(tk.Nodes))
			start := make(chan struct{})
			var wg sync.WaitGroup
			for i, n := range tk.Nodes {
				wg.Add(1)
				go func(i, n int) {
					defer wg.Done()
					<-start
					if us := tk.SkewUs[i]; us > 0 {
						time.Sleep(time.Duration(us) * time.Microsecond)
					}
					ok, err := jobs[n][tk.Ref](tctx)
					results[i] = res{ok, err}
				}(i, n)
			}
			close(start)
			wg.Wait()
			if tk.Repeated {
				// a lagging duplicate of the same tick on one node must not be delivered either
				_, _ = jobs[tk.Nodes[0]][tk.Ref](tctx)
			}
			// job functions enqueue synchronously; a barrier per node makes the deliveries visible
			for _, n := range tk.Nodes {
				if _, err := Ask(ctx, recvs[n], new(testpb.TestPing), 30*time.Second); err != nil {
					x.Class("inconclusive_barrier_failed")
					return
				}
			}
			delivered := total(tk.Ref) - before
			healthy := 0
			for _, n := range tk.Nodes {
				failing := false
				for _, f := range tk.Failing {
					if f == n {
						failing = true
					}
				}
				if !failing {
					healthy++
				}
			}
			reg.mu.Lock()
			grants, asked := reg.grants[key], reg.asked[key]
			reg.mu.Unlock()
			x.Logf("tick %d key=%s stale=%v nodes=%v failing=%v repeated=%v: delivered=%d registry asked=%d grants=%d results=%+v", ti, key, tk.Stale, tk.Nodes, tk.Failing, tk.Repeated, delivered, asked, grants, results)
			desc := fmt.Sprintf("tick #%d of reference %s, run time now-%ds, claim ttl %ds, nodes %v (registry failing for %v), repeated=%v", ti, refs[tk.Ref], tk.LagSec, c.TTLSec, tk.Nodes, tk.Failing, tk.Repeated)
			if total(1-tk.Ref)-otherBefore != 0 {
				x.Failf("cron-tick-delivered-for-other-reference", "%s: the other reference received %d message(s)", desc, total(1-tk.Ref)-otherBefore)
			}
			if delivered > 1 {
				x.Failf("cron-tick-delivered-more-than-once", "%s: delivered %d times across the nodes (registry granted %d claim(s) for key %s)", desc, delivered, grants, key)
			}
			if tk.Stale {
				if delivered != 0 {
					x.Failf("cron-stale-tick-delivered", "%s: a tick older than the claim ttl was delivered %d time(s)", desc, delivered)
				}
				x.Class("tick_stale")
				continue
			}
			want := 0
			if healthy > 0 {
				want = 1
			}
			if delivered != want {
				x.Failf("cron-fresh-tick-delivery-count-wrong", "%s: %d node(s) could reach the registry, expected exactly %d delivery, observed %d (registry asked %d times for key %s, granted %d)", desc, healthy, want, delivered, asked, key, grants)
			}
			for i, n := range tk.Nodes {
				failing := false
				for _, f := range tk.Failing {
					if f == n {
						failing = true
					}
				}
				if failing && results[i].err == nil {
					x.Failf("cron-claim-error-swallowed", "%s: node %d could not reach the registry but its job function reported success", desc, n)
				}
			}
			x.Class("tick_fresh")
			if len(tk.Nodes) >= 2 {
				racing = true
			}
			if len(tk.Failing) > 0 {
				x.Class("tick_with_registry_fault")
			}
		}
		// the wiring: in cluster mode ScheduleWithCron demands an explicit reference
		if err := fix.nodes[0].ScheduleWithCron(ctx, &testpb.TestSum{A: 9}, recvs[0], "0 */5 * * * *"); !errors.Is(err, gerrors.ErrScheduleReferenceRequired) {
			x.Failf("cron-cluster-reference-not-required", "ScheduleWithCron without WithReference on a node with a cluster engine returned %v, expected ErrScheduleReferenceRequired", err)
		}
		if racing {
			x.NonTrivial()
		}
	}
}

func TestVF_C19_cron(t *testing.T) {
	fix := c19CronNodes(t)
	vfkit.Run(t, vfkit.Spec[c19CronCase]{
		ID: "C19", Unit: "cron",
		Rule: "cases = claim ttl x 1..5 ticks, each: reference (two references registered on all three nodes), run time (ticks of the two references may share one), fresh (lag 0..ttl-10 s) or stale (lag > ttl+10 s), the set of 1..3 nodes that run the tick's job function concurrently with start skews of 0..500 us, optionally one node whose registry call fails, optionally a duplicate run of the same tick on one node; the job functions are the ones ScheduleWithCron builds in cluster mode (makeJobFn + claimClusterFire) on three real actor systems whose cluster engine is a harness-owned registry implementing the documented ClaimScheduleFire contract; non-trivial = at least one fresh tick raced for by >= 2 nodes; distinct = distinct cases",
		Gen:  c19CronGen, Exec: c19CronExec(fix),
		ReplayReps: 5,
	})
}

// ---- live smoke: real cron triggers on three nodes -------------------------------------------

type c19LiveCase struct {
	Nodes int `json:"nodes"` // 2..3
	Ticks int `json:"ticks"` // wait for this many distinct ticks (1..2)
}

func TestVF_C19_cronlive(t *testing.T) {
	fix := c19CronNodes(t)
	vfkit.Run(t, vfkit.Spec[c19LiveCase]{
		ID: "C19", Unit: "cronlive",
		Rule: "cases = 2..3 nodes x 1..2 ticks: ScheduleWithCron(\"* * * * * *\", WithReference(r)) on every node (real quartz cron triggers, real time), wait until the simulated registry has granted that many distinct tick keys (10 s grace, otherwise inconclusive), cancel on every node, then the total number of deliveries across nodes must not exceed the number of distinct keys granted; non-trivial = every case (>= 2 nodes race for every tick); distinct = distinct cases",
		Gen: func(t *rapid.T) c19LiveCase {
			return c19LiveCase{Nodes: rapid.IntRange(2, 3).Draw(t, "nodes"), Ticks: rapid.IntRange(1, 2).Draw(t, "ticks")}
		},
		Exec: func(x *vfkit.X, c c19LiveCase) {
			if fix.err != nil {
				x.Class("infra_unavailable")
				return
			}
			ctx := context.Background()
			seq := c19Seq.Add(1)
			reg := &c19Registry{expiry: map[string]time.Time{}, grants: map[string]int{}, asked: map[string]int{}, failing: map[int]bool{}, now: time.Now}
			for _, v := range fix.views {
				v.reg = reg
			}
			ref := fmt.Sprintf("c19-live-%d", seq)
			counters := make([]*c19Counter, c.Nodes)
			recvs := make([]*PID, c.Nodes)
			for ni := 0; ni < c.Nodes; ni++ {
				counters[ni] = &c19Counter{n: map[int64]int{}}
				pid, err := fix.nodes[ni].Spawn(ctx, fmt.Sprintf("c19-live-%d", seq), &c19CronRecv{c: counters[ni]}, WithLongLived())
				if err != nil {
					x.Class("inconclusive_spawn_failed")
					return
				}
				recvs[ni] = pid
				defer func() { _ = pid.Shutdown(context.Background()) }()
			}
			for ni := 0; ni < c.Nodes; ni++ {
				if err := fix.nodes[ni].ScheduleWithCron(ctx, &testpb.TestSum{A: 1}, recvs[ni], "* * * * * *", WithReference(ref)); err != nil {
					x.Failf("cron-schedule-refused", "ScheduleWithCron on node %d: %v", ni, err)
				}
			}
			deadline := time.Now().Add(time.Duration(c.Ticks)*time.Second + 10*time.Second)
			for {
				reg.mu.Lock()
				n := len(reg.grants)
				reg.mu.Unlock()
				got := 0
				for ni := 0; ni < c.Nodes; ni++ {
					counters[ni].mu.Lock()
					got += counters[ni].n[1]
					counters[ni].mu.Unlock()
				}
				// enough ticks were claimed, or deliveries are already running ahead of the claims
				if n >= c.Ticks || got > n+c.Nodes || time.Now().After(deadline) {
					break
				}
				time.Sleep(5 * time.Millisecond)
			}
			for ni := 0; ni < c.Nodes; ni++ {
				if err := fix.nodes[ni].CancelSchedule(ref); err != nil {
					x.Failf("cron-cancel-refused", "CancelSchedule on node %d: %v", ni, err)
				}
			}
			time.Sleep(150 * time.Millisecond)
			delivered := 0
			for ni := 0; ni < c.Nodes; ni++ {
				if _, err := Ask(ctx, recvs[ni], new(testpb.TestPing), 30*time.Second); err != nil {
					x.Class("inconclusive_barrier_failed")
					return
				}
				counters[ni].mu.Lock()
				delivered += counters[ni].n[1]
				counters[ni].mu.Unlock()
			}
			reg.mu.Lock()
			keys := len(reg.grants)
			over := 0
			for _, g := range reg.grants {
				if g > 1 {
					over++
				}
			}
			reg.mu.Unlock()
			x.Logf("nodes=%d keys granted=%d delivered=%d", c.Nodes, keys, delivered)
			if over > 0 {
				x.Failf("harness-registry-granted-twice", "the simulated registry granted a key twice (harness defect)")
			}
			if delivered > keys {
				x.Failf("cron-tick-delivered-more-than-once", "%d nodes ran ScheduleWithCron(\"* * * * * *\") for reference %s: %d deliveries across the nodes for %d distinct tick(s) claimed", c.Nodes, ref, delivered, keys)
			}
			if keys < c.Ticks {
				x.Class("inconclusive_no_tick_within_grace")
				return
			}
			x.NonTrivial()
		},
		ReplayReps: 3,
	})
}

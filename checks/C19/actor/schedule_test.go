//go:build verif

package actor

import (
	"context"
	"fmt"
	"sort"
	"sync"
	"sync/atomic"
	"testing"
	"time"

	"pgregory.net/rapid"

	"github.com/tochemey/goakt/v4/internal/vfkit"
	"github.com/tochemey/goakt/v4/log"
	"github.com/tochemey/goakt/v4/test/data/testpb"
)

// ---------------------------------------------------------------------------
// C19 / timeline: ScheduleOnce / Schedule / PauseSchedule / ResumeSchedule /
// CancelSchedule on the real scheduler (go-quartz, real time, no clock seam).
//
// Only directions that tolerate arbitrary scheduling delay are asserted:
//   * never early / never too many: the n-th arrival of a schedule happens no
//     earlier than the n-th tick can have been due, where ticks are due at
//     (start of the Schedule/Resume call) + j*interval and only while the schedule
//     is neither paused nor cancelled (a tick cannot fire after Pause/Cancel returned);
//   * a one-shot message arrives at most once, never before call start + delay, and
//     never after a Cancel/Pause that returned nil before the delay had elapsed;
//   * Cancel/Pause/Resume of an unknown or cancelled reference return an error;
//     operations on a live reference succeed;
//   * "arrives at all" is waited for with a 10 s grace; a miss is reported only when the
//     identical case misses in 3 of 3 executions (three-strikes rule).
// ---------------------------------------------------------------------------

const c19Margin = 2 * time.Millisecond

type c19Op struct {
	Kind   string `json:"kind"` // wait | pause | resume | cancel | unknown | reschedule | dup
	WaitMs int    `json:"wait_ms"`
	API    int    `json:"api"` // unknown: 0 cancel, 1 pause, 2 resume; dup: 0 same kind of schedule, 1 the other kind
}

type c19Ref struct {
	Once       bool    `json:"once"`
	Ms         int     `json:"ms"` // delay (once: 30..200) or interval (repeat: 30..80)
	WithSender bool    `json:"with_sender"`
	StartMs    int     `json:"start_ms"`
	Ops        []c19Op `json:"ops"`
}

type c19Case struct {
	Refs []c19Ref `json:"refs"`
}

func c19Gen(t *rapid.T) c19Case {
	var c c19Case
	n := rapid.IntRange(1, 4).Draw(t, "refs")
	for i := 0; i < n; i++ {
		r := c19Ref{Once: rapid.IntRange(0, 2).Draw(t, "once") == 0}
		if r.Once {
			r.Ms = rapid.OneOf(rapid.IntRange(30, 200), rapid.SampledFrom([]int{30, 200})).Draw(t, "delay_ms")
		} else {
			r.Ms = rapid.OneOf(rapid.IntRange(30, 80), rapid.SampledFrom([]int{30, 80})).Draw(t, "interval_ms")
		}
		r.WithSender = rapid.Bool().Draw(t, "with_sender")
		r.StartMs = rapid.IntRange(0, 40).Draw(t, "start_ms")
		k := rapid.IntRange(0, 6).Draw(t, "ops")
		for j := 0; j < k; j++ {
			op := c19Op{Kind: rapid.SampledFrom([]string{"wait", "wait", "pause", "pause", "resume", "resume", "cancel", "unknown", "reschedule", "dup", "dup"}).Draw(t, "op")}
			switch op.Kind {
			case "wait":
				op.WaitMs = rapid.IntRange(0, 250).Draw(t, "wait_ms")
			case "unknown":
				op.API = rapid.IntRange(0, 2).Draw(t, "api")
			case "dup":
				op.API = rapid.IntRange(0, 1).Draw(t, "dup_kind")
				op.WaitMs = rapid.SampledFrom([]int{0, 0, 20, 100}).Draw(t, "after_ms")
			default:
				// a short pause after the call so that consequences become visible
				op.WaitMs = rapid.SampledFrom([]int{0, 0, 20, 100, 200}).Draw(t, "after_ms")
			}
			r.Ops = append(r.Ops, op)
		}
		c.Refs = append(c.Refs, r)
	}
	return c
}

// ---- receiver -----------------------------------------------------------------------

type c19Arrival struct {
	at     time.Time
	ref    int64
	gen    int64
	sender string
}

type c19Log struct {
	mu       sync.Mutex
	arrivals []c19Arrival
}

func (l *c19Log) count(ref, gen int64) int {
	l.mu.Lock()
	defer l.mu.Unlock()
	n := 0
	for _, a := range l.arrivals {
		if a.ref == ref && a.gen == gen {
			n++
		}
	}
	return n
}

func (l *c19Log) snapshot() []c19Arrival {
	l.mu.Lock()
	defer l.mu.Unlock()
	return append([]c19Arrival(nil), l.arrivals...)
}

type c19Receiver struct{ log *c19Log }

func (r *c19Receiver) PreStart(*Context) error { return nil }
func (r *c19Receiver) PostStop(*Context) error { return nil }
func (r *c19Receiver) Receive(ctx *ReceiveContext) {
	switch m := ctx.Message().(type) {
	case *testpb.TestSum:
		now := time.Now()
		from := ""
		if s := ctx.Sender(); s != nil {
			from = pathString(s.Path())
		}
		r.log.mu.Lock()
		r.log.arrivals = append(r.log.arrivals, c19Arrival{at: now, ref: m.GetA(), gen: m.GetB(), sender: from})
		r.log.mu.Unlock()
	case *testpb.TestPing:
		ctx.Response(new(testpb.TestPong))
	}
}

type c19Nop struct{}

func (c19Nop) PreStart(*Context) error { return nil }
func (c19Nop) PostStop(*Context) error { return nil }
func (c19Nop) Receive(*ReceiveContext) {}

// ---- fixture ------------------------------------------------------------------------

var (
	c19Once   sync.Once
	c19Sys    *actorSystem
	c19Sender *PID
	c19Err    error
	c19Seq    atomic.Int64
)

func c19System(t *testing.T) (*actorSystem, error) {
	c19Once.Do(func() {
		sys, err := NewActorSystem("c19", WithLogger(log.DiscardLogger))
		if err != nil {
			c19Err = err
			return
		}
		if err := sys.Start(context.Background()); err != nil {
			c19Err = err
			return
		}
		t.Cleanup(func() { _ = sys.Stop(context.Background()) })
		c19Sys = sys.(*actorSystem)
		c19Sender, c19Err = sys.Spawn(context.Background(), "c19-sender", c19Nop{}, WithLongLived())
	})
	return c19Sys, c19Err
}

// ---- per-reference history ------------------------------------------------------------

type c19Call struct {
	kind       string // schedule | pause | resume | cancel | unknown-cancel | unknown-pause | unknown-resume
	start, end time.Time
	err        error
	gen        int64
	arrived    int  // arrivals of the current generation recorded before the call started
	final      bool // issued by the adaptive final phase, not by a generated operation
}

type c19Timeline struct {
	calls []c19Call
	stall string
	// non-zero: a Schedule/ScheduleOnce call that re-used the live reference returned nil at a call started
	// at this instant (the schedule was replaced, or the original had just ended): the reference is not judged from here on
	abandonedAt time.Time
}

type c19Verdict struct {
	fp, msg    string
	stall      string
	classes    []string
	nontrivial bool
}

func c19WaitCount(l *c19Log, ref, gen int64, want int, cap time.Duration) bool {
	deadline := time.Now().Add(cap)
	for l.count(ref, gen) < want {
		if time.Now().After(deadline) {
			return false
		}
		time.Sleep(2 * time.Millisecond)
	}
	return true
}

// c19RunRef executes one reference's operations and returns what was called when, with which result.
func c19RunRef(sys *actorSystem, recv *PID, l *c19Log, refID int64, reference string, r c19Ref) *c19Timeline {
	ctx := context.Background()
	tl := &c19Timeline{}
	d := time.Duration(r.Ms) * time.Millisecond
	var gen int64
	// a minimal mirror of the reference state, only used to steer the adaptive final phase and "reschedule"
	state := "none" // active | paused | cancelled
	final := false
	call := func(kind string, f func() error) error {
		c := c19Call{kind: kind, gen: gen, final: final, arrived: l.count(refID, gen), start: time.Now()}
		c.err = f()
		c.end = time.Now()
		tl.calls = append(tl.calls, c)
		return c.err
	}
	opts := []ScheduleOption{WithReference(reference)}
	if r.WithSender {
		opts = append(opts, WithSender(c19Sender))
	}
	schedule := func() {
		gen++
		msg := &testpb.TestSum{A: refID, B: gen}
		var err error
		if r.Once {
			err = call("schedule", func() error { return sys.ScheduleOnce(ctx, msg, recv, d, opts...) })
		} else {
			err = call("schedule", func() error { return sys.Schedule(ctx, msg, recv, d, opts...) })
		}
		if err == nil {
			state = "active"
		}
	}
	time.Sleep(time.Duration(r.StartMs) * time.Millisecond)
	schedule()
	for _, op := range r.Ops {
		switch op.Kind {
		case "wait":
		case "pause":
			if call("pause", func() error { return sys.PauseSchedule(reference) }) == nil && state == "active" {
				state = "paused"
			}
		case "resume":
			if call("resume", func() error { return sys.ResumeSchedule(reference) }) == nil && state == "paused" {
				state = "active"
			}
		case "cancel":
			_ = call("cancel", func() error { return sys.CancelSchedule(reference) })
			state = "cancelled"
		case "unknown":
			ghost := reference + "-never-scheduled"
			switch op.API {
			case 0:
				_ = call("unknown-cancel", func() error { return sys.CancelSchedule(ghost) })
			case 1:
				_ = call("unknown-pause", func() error { return sys.PauseSchedule(ghost) })
			default:
				_ = call("unknown-resume", func() error { return sys.ResumeSchedule(ghost) })
			}
		case "reschedule":
			// the same reference is scheduled again only when the previous schedule is over
			if state == "cancelled" {
				schedule()
			}
		case "dup":
			// Schedule/ScheduleOnce with a reference that is currently live. Its own result is not judged.
			// An error must leave the original schedule fully operable (it is judged on as before);
			// nil means the schedule was replaced (or the one-shot had just fired): stop judging this reference.
			if state == "active" || state == "paused" {
				once := r.Once
				if op.API == 1 {
					once = !once
				}
				msg := &testpb.TestSum{A: refID, B: 1000 + gen} // deliveries of a replacement are recognisable
				var err error
				if once {
					err = call("dup", func() error { return sys.ScheduleOnce(ctx, msg, recv, d, opts...) })
				} else {
					err = call("dup", func() error { return sys.Schedule(ctx, msg, recv, d, opts...) })
				}
				if err == nil {
					tl.abandonedAt = tl.calls[len(tl.calls)-1].start
					_ = sys.CancelSchedule(reference) // clean up whatever is registered now; not recorded, not judged
					time.Sleep(50 * time.Millisecond)
					return tl
				}
			}
		}
		time.Sleep(time.Duration(op.WaitMs) * time.Millisecond)
	}
	// final phase: give liveness its grace, then cancel and watch for a while
	final = true
	if r.Once {
		if state == "active" {
			if !c19WaitCount(l, refID, gen, 1, d+10*time.Second) {
				tl.stall = fmt.Sprintf("one-shot reference %s (generation %d, delay %v) was never delivered within delay+10s although it was neither cancelled nor left paused", reference, gen, d)
			}
		} else {
			time.Sleep(d + 100*time.Millisecond)
		}
		_ = call("cancel", func() error { return sys.CancelSchedule(reference) })
		return tl
	}
	if state == "active" {
		base := l.count(refID, gen)
		if !c19WaitCount(l, refID, gen, base+2, 2*d+10*time.Second) {
			tl.stall = fmt.Sprintf("repeating reference %s (generation %d, interval %v) is active but did not deliver two more messages within 2*interval+10s", reference, gen, d)
		}
	} else if state == "paused" {
		time.Sleep(3 * d)
	}
	if state != "cancelled" {
		_ = call("cancel", func() error { return sys.CancelSchedule(reference) })
	}
	time.Sleep(4*d + 100*time.Millisecond)
	return tl
}

// ---- the oracle ---------------------------------------------------------------------------

type c19Seg struct {
	start time.Time
	end   time.Time // zero = still open
}

func c19Judge(c c19Case, refIDs []int64, refs []string, tls []*c19Timeline, arrivals []c19Arrival, noSender, withSender string, known func(string) bool) (v c19Verdict) {
	fail := func(fp, format string, args ...any) c19Verdict {
		v.fp, v.msg = fp, fmt.Sprintf(format, args...)
		return v
	}
	refIndex := map[int64]int{}
	for i, id := range refIDs {
		refIndex[id] = i
	}
	type key struct{ ref, gen int64 }
	byGen := map[key][]c19Arrival{}
	for _, a := range arrivals {
		i, ok := refIndex[a.ref]
		if !ok {
			return fail("unexpected-message", "the receiver got a message (ref id %d generation %d) that this case never scheduled", a.ref, a.gen)
		}
		want := noSender
		if c.Refs[i].WithSender {
			want = withSender
		}
		if a.sender != want {
			return fail("scheduled-message-wrong-sender", "reference %s: delivered with sender %q, expected %q (WithSender=%v)", refs[i], a.sender, want, c.Refs[i].WithSender)
		}
		byGen[key{a.ref, a.gen}] = append(byGen[key{a.ref, a.gen}], a)
	}
	for i, r := range c.Refs {
		tl := tls[i]
		d := time.Duration(r.Ms) * time.Millisecond
		ref := refs[i]
		// split the calls by generation
		var maxGen int64
		for _, cl := range tl.calls {
			if cl.gen > maxGen {
				maxGen = cl.gen
			}
		}
		for _, cl := range tl.calls {
			if len(cl.kind) > 8 && cl.kind[:8] == "unknown-" && cl.err == nil {
				return fail("unknown-reference-no-error", "%s of a reference that was never scheduled returned nil", cl.kind[8:])
			}
		}
		for g := int64(1); g <= maxGen; g++ {
			arr := byGen[key{refIDs[i], g}]
			if !tl.abandonedAt.IsZero() {
				var kept []c19Arrival
				for _, a := range arr {
					if a.at.Before(tl.abandonedAt) {
						kept = append(kept, a)
					}
				}
				arr = kept
			}
			sort.Slice(arr, func(a, b int) bool { return arr[a].at.Before(arr[b].at) })
			var calls []c19Call
			for _, cl := range tl.calls {
				if !tl.abandonedAt.IsZero() && !cl.start.Before(tl.abandonedAt) {
					continue
				}
				if cl.gen == g && (len(cl.kind) < 8 || cl.kind[:8] != "unknown-") {
					calls = append(calls, cl)
				}
			}
			if len(calls) == 0 || calls[0].kind != "schedule" {
				continue
			}
			sched := calls[0]
			if sched.err != nil {
				return fail("schedule-refused", "reference %s generation %d: Schedule/ScheduleOnce with a fresh (or cancelled) reference returned %v", ref, g, sched.err)
			}
			if r.Once {
				earliest := sched.start.Add(d)
				if len(arr) > 1 {
					return fail("once-delivered-more-than-once", "reference %s generation %d (ScheduleOnce, delay %v): %d deliveries", ref, g, d, len(arr))
				}
				if len(arr) == 1 && arr[0].at.Before(earliest.Add(-c19Margin)) {
					return fail("once-delivered-early", "reference %s generation %d: ScheduleOnce(delay %v) called at t0, delivered at t0+%v", ref, g, d, arr[0].at.Sub(sched.start))
				}
				state := "active"
				resumed := false
				var quietFrom time.Time // non-zero: no delivery may be recorded after this instant ...
				quiet := false
				for _, cl := range calls[1:] {
					definitelyPending := !resumed && state == "active" && !cl.end.After(earliest.Add(-c19Margin))
					switch cl.kind {
					case "pause":
						switch {
						case state == "cancelled" && cl.err == nil:
							return fail("cancelled-reference-no-error", "reference %s generation %d: PauseSchedule after CancelSchedule returned nil", ref, g)
						case definitelyPending && cl.err != nil:
							return fail("pause-pending-once-refused", "reference %s generation %d: PauseSchedule %v after ScheduleOnce(delay %v) returned %v", ref, g, cl.end.Sub(sched.start), d, cl.err)
						case cl.err == nil && state == "active":
							if definitelyPending {
								quiet, quietFrom = true, cl.end
							}
							state = "paused"
						}
					case "resume":
						switch {
						case state == "cancelled" && cl.err == nil:
							return fail("cancelled-reference-no-error", "reference %s generation %d: ResumeSchedule after CancelSchedule returned nil", ref, g)
						case state == "paused" && cl.err == nil:
							if quiet {
								// ... until the resume call started
								for _, a := range arr {
									if a.at.After(quietFrom) && a.at.Before(cl.start) {
										return fail("once-delivered-while-paused", "reference %s generation %d: delivered %v after PauseSchedule returned nil (before the delay had elapsed) and before ResumeSchedule was called", ref, g, a.at.Sub(quietFrom))
									}
								}
								quiet = false
							}
							state, resumed = "active", true
						case state == "paused" && cl.err != nil && quiet:
							if !known("paused-once-lost") {
								return fail("paused-once-lost", "reference %s generation %d: ScheduleOnce(delay %v); PauseSchedule returned nil %v later (message still pending); ResumeSchedule returned %q and the message is never delivered (deliveries: %d)", ref, g, d, quietFrom.Sub(sched.start), cl.err, len(arr))
							}
							v.classes = append(v.classes, "known_paused_once_lost")
							state, quiet = "lost", false
						}
					case "cancel":
						switch {
						case state == "cancelled" && cl.err == nil:
							return fail("cancelled-reference-no-error", "reference %s generation %d: CancelSchedule of an already cancelled reference returned nil", ref, g)
						case state == "cancelled", state == "lost":
						case cl.arrived > 0 && cl.err == nil:
							return fail("cancel-after-delivery-no-error", "reference %s generation %d: the one-shot message had been delivered before CancelSchedule was called, yet it returned nil", ref, g)
						case (definitelyPending || quiet) && cl.err != nil:
							return fail("cancel-pending-once-refused", "reference %s generation %d: CancelSchedule of a pending one-shot schedule returned %v", ref, g, cl.err)
						case cl.err == nil && definitelyPending:
							quiet, quietFrom = true, cl.end
						}
						state = "cancelled"
					}
				}
				if quiet {
					for _, a := range arr {
						if a.at.After(quietFrom) {
							return fail("once-delivered-after-cancel", "reference %s generation %d: ScheduleOnce(delay %v) cancelled/paused (nil) %v after the call, yet delivered %v after that", ref, g, d, quietFrom.Sub(sched.start), a.at.Sub(quietFrom))
						}
					}
				}
				continue
			}
			// repeating schedule: active segments
			state := "active"
			segs := []c19Seg{{start: sched.start}}
			touched := false
			for _, cl := range calls[1:] {
				switch cl.kind {
				case "pause":
					switch {
					case state == "cancelled" && cl.err == nil:
						return fail("cancelled-reference-no-error", "reference %s generation %d: PauseSchedule after CancelSchedule returned nil", ref, g)
					case state == "active" && cl.err != nil:
						return fail("pause-live-refused", "reference %s generation %d: PauseSchedule of a live repeating schedule returned %v", ref, g, cl.err)
					case state == "active":
						segs[len(segs)-1].end = cl.end
						state, touched = "paused", true // Pause is never issued by the final phase
					}
				case "resume":
					switch {
					case state == "cancelled" && cl.err == nil:
						return fail("cancelled-reference-no-error", "reference %s generation %d: ResumeSchedule after CancelSchedule returned nil", ref, g)
					case state == "paused" && cl.err != nil:
						return fail("resume-paused-refused", "reference %s generation %d: ResumeSchedule of a paused repeating schedule returned %v", ref, g, cl.err)
					case state == "paused":
						segs = append(segs, c19Seg{start: cl.start})
						state = "active"
					}
				case "cancel":
					switch {
					case state == "cancelled" && cl.err == nil:
						return fail("cancelled-reference-no-error", "reference %s generation %d: CancelSchedule of an already cancelled reference returned nil", ref, g)
					case state == "cancelled":
					case cl.err != nil:
						return fail("cancel-live-refused", "reference %s generation %d: CancelSchedule of a live repeating schedule returned %v", ref, g, cl.err)
					default:
						if state == "active" {
							segs[len(segs)-1].end = cl.end
							touched = touched || !cl.final
						}
						state = "cancelled"
					}
				}
			}
			if touched {
				v.nontrivial = true
			}
			due := func(t time.Time) int {
				n := 0
				for _, s := range segs {
					if !t.After(s.start) {
						continue
					}
					end := t
					if !s.end.IsZero() && s.end.Before(t) {
						end = s.end
					}
					n += int((end.Sub(s.start) + c19Margin) / d)
				}
				return n
			}
			for n, a := range arr {
				if can := due(a.at); n+1 > can {
					desc := ""
					for _, s := range segs {
						e := "open"
						if !s.end.IsZero() {
							e = s.end.Sub(sched.start).String()
						}
						desc += fmt.Sprintf(" [%v..%s]", s.start.Sub(sched.start), e)
					}
					fp := "repeat-delivered-early"
					last := segs[len(segs)-1]
					if !last.end.IsZero() && a.at.After(last.end) {
						fp = "repeat-delivered-after-stop"
					} else {
						for _, s := range segs[:len(segs)-1] {
							if a.at.After(s.end) {
								fp = "repeat-delivered-while-paused"
							}
						}
						for _, s := range segs {
							if a.at.After(s.start) && (s.end.IsZero() || !a.at.After(s.end)) {
								fp = "repeat-delivered-early"
							}
						}
					}
					return fail(fp, "reference %s generation %d (Schedule, interval %v): delivery #%d recorded at t0+%v, but at most %d tick(s) can have been due by then; active windows relative to the Schedule call (call start .. Pause/Cancel return):%s; all deliveries: %s",
						ref, g, d, n+1, a.at.Sub(sched.start), can, desc, c19Times(arr, sched.start))
				}
			}
		}
	}
	return v
}

func c19Times(arr []c19Arrival, t0 time.Time) string {
	s := ""
	for _, a := range arr {
		s += a.at.Sub(t0).Round(100*time.Microsecond).String() + " "
	}
	return s
}

func c19RunCase(x *vfkit.X, sys *actorSystem, c c19Case) c19Verdict {
	ctx := context.Background()
	seq := c19Seq.Add(1)
	l := &c19Log{}
	recv, err := sys.Spawn(ctx, fmt.Sprintf("c19-%d-recv", seq), &c19Receiver{log: l}, WithLongLived())
	if err != nil {
		return c19Verdict{classes: []string{"inconclusive_spawn_failed"}}
	}
	defer func() { _ = recv.Shutdown(context.Background()) }()
	known := map[string]bool{"paused-once-lost": x.Known("paused-once-lost")}
	refIDs := make([]int64, len(c.Refs))
	refs := make([]string, len(c.Refs))
	tls := make([]*c19Timeline, len(c.Refs))
	var wg sync.WaitGroup
	for i := range c.Refs {
		refIDs[i] = seq*16 + int64(i)
		refs[i] = fmt.Sprintf("c19-%d-r%d", seq, i)
		wg.Add(1)
		go func(i int) {
			defer wg.Done()
			tls[i] = c19RunRef(sys, recv, l, refIDs[i], refs[i], c.Refs[i])
		}(i)
	}
	wg.Wait()
	// whatever is still in the receiver's mailbox is handled before the snapshot
	if _, err := Ask(ctx, recv, new(testpb.TestPing), 30*time.Second); err != nil {
		return c19Verdict{classes: []string{"inconclusive_barrier_failed"}}
	}
	arrivals := l.snapshot()
	for i, tl := range tls {
		for _, cl := range tl.calls {
			x.Logf("ref %d %s gen=%d start=%s dur=%v err=%v arrived_before=%d", i, cl.kind, cl.gen, cl.start.Format("05.000000"), cl.end.Sub(cl.start), cl.err, cl.arrived)
		}
	}
	for _, a := range arrivals {
		x.Logf("arrival ref-id=%d gen=%d at=%s sender=%s", a.ref, a.gen, a.at.Format("05.000000"), a.sender)
	}
	v := c19Judge(c, refIDs, refs, tls, arrivals, pathString(sys.NoSender().Path()), pathString(c19Sender.Path()), func(fp string) bool { return known[fp] })
	if v.fp == "" {
		for _, tl := range tls {
			if tl.stall != "" {
				v.stall = tl.stall
			}
		}
	}
	for _, tl := range tls {
		for _, cl := range tl.calls {
			if cl.kind == "dup" {
				if cl.err != nil {
					v.classes = append(v.classes, "dup_on_live_reference_refused")
				} else {
					v.classes = append(v.classes, "dup_on_live_reference_accepted")
				}
			}
		}
	}
	for _, r := range c.Refs {
		if r.Once {
			v.classes = append(v.classes, "has_once")
		} else {
			v.classes = append(v.classes, "has_repeat")
		}
		for _, op := range r.Ops {
			v.classes = append(v.classes, "op_"+op.Kind)
		}
	}
	return v
}

func c19Exec(sys *actorSystem, sysErr error) func(x *vfkit.X, c c19Case) {
	return func(x *vfkit.X, c c19Case) {
		if sysErr != nil {
			x.Class("infra_unavailable")
			return
		}
		v := c19RunCase(x, sys, c)
		if v.fp == "" && v.stall != "" {
			for i := 0; i < 2 && v.fp == "" && v.stall != ""; i++ {
				x.Logf("stall (%s): re-executing the identical case", v.stall)
				v = c19RunCase(x, sys, c)
			}
			if v.fp == "" && v.stall != "" {
				x.Failf("scheduled-message-never-delivered", "3 of 3 executions: %s", v.stall)
			}
			x.Class("inconclusive_stall_not_reproduced")
		}
		if v.fp != "" {
			x.Failf(v.fp, "%s", v.msg)
		}
		for _, cl := range v.classes {
			x.Class(cl)
		}
		if v.nontrivial {
			x.NonTrivial()
		}
	}
}

func TestVF_C19_timeline(t *testing.T) {
	sys, err := c19System(t)
	vfkit.Run(t, vfkit.Spec[c19Case]{
		ID: "C19", Unit: "timeline",
		Rule: "cases = 1..4 references running concurrently on one real actor system, each: ScheduleOnce(delay 30..200 ms) or Schedule(interval 30..80 ms), with or without WithSender, followed by 0..6 operations from {wait 0..250 ms, PauseSchedule, ResumeSchedule, CancelSchedule, Cancel/Pause/Resume of a never scheduled reference, schedule the same reference again once it was cancelled, Schedule/ScheduleOnce with the reference while it is live (result not judged: after an error the original schedule is judged on as a live reference, after nil the reference is no longer judged)}; an adaptive final phase waits (10 s grace, three-strikes rule) for the delivery that must still happen, cancels and keeps watching for 4 intervals; every call is recorded with start/return instants and result, every delivery with its arrival instant; non-trivial = a repeating schedule was paused or cancelled while live by a generated operation; distinct = distinct cases",
		Gen:  c19Gen, Exec: c19Exec(sys, err),
		ReplayReps: 5,
	})
}

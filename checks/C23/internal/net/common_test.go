//go:build verif

package net

// Shared harness pieces of the C23 units: in-memory reader/connection that
// observe the size of every buffer handed to Read, the real ProtoServer read
// loop driven without a socket, and reference decoders written from the
// documented frame layouts (proto_serializer.go / metadata.go doc comments).

import (
	"context"
	"encoding/binary"
	"errors"
	"io"
	stdnet "net"
	"sync"
	"time"

	"google.golang.org/protobuf/proto"
	"google.golang.org/protobuf/reflect/protoreflect"
	"google.golang.org/protobuf/reflect/protoregistry"
)

// ---- chunked reader ----------------------------------------------------------

// c23Reader serves data in pieces of the generated chunk sizes and records the
// largest buffer any caller asked it to fill.
type c23Reader struct {
	data   []byte
	pos    int
	chunks []int
	ci     int
	maxReq int
	reads  int
}

func (r *c23Reader) Read(p []byte) (int, error) {
	r.reads++
	if len(p) > r.maxReq {
		r.maxReq = len(p)
	}
	if len(p) == 0 {
		return 0, nil
	}
	if r.pos >= len(r.data) {
		return 0, io.EOF
	}
	n := len(r.data) - r.pos
	if len(r.chunks) > 0 {
		c := r.chunks[r.ci%len(r.chunks)]
		r.ci++
		if c < 1 {
			c = 1
		}
		if n > c {
			n = c
		}
	}
	if n > len(p) {
		n = len(p)
	}
	copy(p, r.data[r.pos:r.pos+n])
	r.pos += n
	return n, nil
}

// ---- fake connection for the server read loop --------------------------------

type c23Conn struct {
	r   c23Reader
	out []byte
}

func (c *c23Conn) Read(p []byte) (int, error)  { return c.r.Read(p) }
func (c *c23Conn) Write(p []byte) (int, error) { c.out = append(c.out, p...); return len(p), nil }
func (c *c23Conn) Close() error                { return nil }
func (c *c23Conn) LocalAddr() stdnet.Addr {
	return &stdnet.TCPAddr{IP: stdnet.IPv4(127, 0, 0, 1), Port: 1}
}
func (c *c23Conn) RemoteAddr() stdnet.Addr {
	return &stdnet.TCPAddr{IP: stdnet.IPv4(127, 0, 0, 1), Port: 2}
}
func (c *c23Conn) SetDeadline(time.Time) error { return nil }
func (c *c23Conn) SetReadDeadline(time.Time) error {
	return nil
}
func (c *c23Conn) SetWriteDeadline(time.Time) error { return nil }

// c23Dispatch is one handler invocation observed on the server side.
type c23Dispatch struct {
	key string // handler map key the server dispatched on ("<fallback>" for the fallback handler)
	msg proto.Message
	md  *Metadata
}

var c23Srv struct {
	once  sync.Once
	ps    *ProtoServer
	err   error
	calls []c23Dispatch
	reply func(i int) bool // whether the i-th dispatched message gets an (echo) response
}

func c23Server() (*ProtoServer, error) {
	c23Srv.once.Do(func() {
		mk := func(key string) ProtoHandler {
			return func(ctx context.Context, _ Connection, req proto.Message) (proto.Message, error) {
				md, _ := FromContext(ctx)
				i := len(c23Srv.calls)
				c23Srv.calls = append(c23Srv.calls, c23Dispatch{key: key, msg: req, md: md})
				if c23Srv.reply != nil && !c23Srv.reply(i) {
					return nil, nil
				}
				return req, nil
			}
		}
		opts := []ProtoServerOption{WithProtoServerBallast(0), WithFallbackProtoHandler(mk("<fallback>"))}
		for _, ti := range c23Types() {
			if ti.mt.Descriptor().ParentFile().Package() == "google.protobuf" {
				continue // these go to the fallback handler
			}
			opts = append(opts, WithProtoHandler(protoreflect.FullName(ti.name), mk(ti.name)))
		}
		c23Srv.ps, c23Srv.err = NewProtoServer("127.0.0.1:0", opts...)
	})
	return c23Srv.ps, c23Srv.err
}

func c23ExpectedKey(name string) string {
	if ti := c23TypeByName(name); ti != nil && ti.mt.Descriptor().ParentFile().Package() != "google.protobuf" {
		return name
	}
	return "<fallback>"
}

// c23Serve runs the real per-connection read loop of ProtoServer over input.
// It returns the handler invocations, the bytes the server wrote, the largest
// Read buffer the server asked the connection for, and a recovered panic.
func c23Serve(input []byte, chunks []int, maxFrame uint32, reply func(i int) bool) (calls []c23Dispatch, out []byte, maxReq int, panicked any) {
	ps, err := c23Server()
	if err != nil {
		return nil, nil, 0, err
	}
	ps.maxFrameSize = maxFrame
	c23Srv.calls = nil
	c23Srv.reply = reply
	conn := &c23Conn{r: c23Reader{data: input, chunks: chunks}}
	func() {
		defer func() { panicked = recover() }()
		ps.handleConn(&TCPConn{Conn: conn})
	}()
	calls = c23Srv.calls
	c23Srv.calls = nil
	return calls, conn.out, conn.r.maxReq, panicked
}

// ---- reference decoders (from the documented layouts) ---------------------------

const (
	c23ErrNone = iota
	c23ErrLen
	c23ErrUnknownType
	c23ErrMetadata
	c23ErrProto
)

func c23ErrName(k int) string {
	return [...]string{"ok", "ErrInvalidMessageLength", "ErrUnknownMessageType", "ErrInvalidMetadata", "ErrUnmarshalBinaryFailed"}[k]
}

func c23Sentinel(k int) error {
	switch k {
	case c23ErrLen:
		return ErrInvalidMessageLength
	case c23ErrUnknownType:
		return ErrUnknownMessageType
	case c23ErrMetadata:
		return ErrInvalidMetadata
	case c23ErrProto:
		return ErrUnmarshalBinaryFailed
	}
	return nil
}

type c23RefMD struct {
	present   bool // metaLen > 0
	headers   map[string]string
	dupKeys   bool // a key occurs twice: the specification does not say which value wins
	trailing  bool // bytes after the 8-byte remaining-time field: the specification is silent
	remaining int64
}

type c23Ref struct {
	errs      []int // acceptable error classes (empty = must succeed)
	reachedTy bool  // the length checks passed and the type name was looked up
	name      string
	msg       proto.Message
	md        c23RefMD
}

func (r *c23Ref) ok() bool { return len(r.errs) == 0 }

func c23RefLookup(name []byte) protoreflect.MessageType {
	mt, err := protoregistry.GlobalTypes.FindMessageByName(protoreflect.FullName(string(name)))
	if err != nil {
		return nil
	}
	return mt
}

// c23RefParseMD parses [2 count][count x (2 klen, key, 2 vlen, val)][8 remaining].
func c23RefParseMD(b []byte) (c23RefMD, bool) {
	md := c23RefMD{present: true, headers: map[string]string{}}
	if len(b) < 10 {
		return md, false
	}
	count := int(binary.BigEndian.Uint16(b))
	pos := 2
	for i := 0; i < count; i++ {
		if len(b)-pos < 2 {
			return md, false
		}
		kl := int(binary.BigEndian.Uint16(b[pos:]))
		pos += 2
		if len(b)-pos < kl {
			return md, false
		}
		k := string(b[pos : pos+kl])
		pos += kl
		if len(b)-pos < 2 {
			return md, false
		}
		vl := int(binary.BigEndian.Uint16(b[pos:]))
		pos += 2
		if len(b)-pos < vl {
			return md, false
		}
		v := string(b[pos : pos+vl])
		pos += vl
		if _, dup := md.headers[k]; dup {
			md.dupKeys = true
		}
		md.headers[k] = v
	}
	if len(b)-pos < 8 {
		return md, false
	}
	md.remaining = int64(binary.BigEndian.Uint64(b[pos:]))
	md.trailing = len(b)-pos > 8
	return md, true
}

// c23RefLegacy: [totalLen u32][nameLen u32][name][proto bytes], totalLen covers the whole frame.
func c23RefLegacy(data []byte) c23Ref {
	bad := c23Ref{errs: []int{c23ErrLen}}
	if len(data) < 8 {
		return bad
	}
	total := uint64(binary.BigEndian.Uint32(data[0:4]))
	if total < 8 || uint64(len(data)) < total {
		return bad
	}
	nameLen := uint64(binary.BigEndian.Uint32(data[4:8]))
	if 8+nameLen > total {
		return bad
	}
	name := data[8 : 8+nameLen]
	mt := c23RefLookup(name)
	if mt == nil {
		return c23Ref{errs: []int{c23ErrUnknownType}, reachedTy: true}
	}
	msg := mt.New().Interface()
	if err := proto.Unmarshal(data[8+nameLen:total], msg); err != nil {
		return c23Ref{errs: []int{c23ErrProto}, reachedTy: true}
	}
	return c23Ref{reachedTy: true, name: string(name), msg: msg}
}

// c23RefMeta: [totalLen u32][nameLen u32][metaLen u32][name][metadata][proto bytes].
func c23RefMeta(data []byte) c23Ref {
	bad := c23Ref{errs: []int{c23ErrLen}}
	if len(data) < 12 {
		return bad
	}
	total := uint64(binary.BigEndian.Uint32(data[0:4]))
	if total < 12 || uint64(len(data)) < total {
		return bad
	}
	nameLen := uint64(binary.BigEndian.Uint32(data[4:8]))
	metaLen := uint64(binary.BigEndian.Uint32(data[8:12]))
	if 12+nameLen+metaLen > total {
		return bad
	}
	name := data[12 : 12+nameLen]
	mt := c23RefLookup(name)
	var md c23RefMD
	mdOK := true
	if metaLen > 0 {
		md, mdOK = c23RefParseMD(data[12+nameLen : 12+nameLen+metaLen])
	}
	if mt == nil {
		r := c23Ref{errs: []int{c23ErrUnknownType}, reachedTy: true}
		if !mdOK {
			r.errs = append(r.errs, c23ErrMetadata)
		}
		return r
	}
	msg := mt.New().Interface()
	perr := proto.Unmarshal(data[12+nameLen+metaLen:total], msg)
	if !mdOK {
		r := c23Ref{errs: []int{c23ErrMetadata}, reachedTy: true}
		if perr != nil {
			r.errs = append(r.errs, c23ErrProto)
		}
		return r
	}
	if perr != nil {
		return c23Ref{errs: []int{c23ErrProto}, reachedTy: true}
	}
	return c23Ref{reachedTy: true, name: string(name), msg: msg, md: md}
}

func c23ErrAccepted(err error, classes []int) bool {
	for _, k := range classes {
		if errors.Is(err, c23Sentinel(k)) {
			return true
		}
	}
	return false
}

func c23Classes(classes []int) string {
	s := ""
	for i, k := range classes {
		if i > 0 {
			s += "|"
		}
		s += c23ErrName(k)
	}
	return s
}

// c23HeadersOf copies the headers of a decoded Metadata through its public API.
func c23HeadersOf(md *Metadata) map[string]string {
	out := map[string]string{}
	if md == nil {
		return out
	}
	md.IterateHeaders(func(k, v string) { out[k] = v })
	return out
}

func c23MapsEqual(a, b map[string]string) bool {
	if len(a) != len(b) {
		return false
	}
	for k, v := range a {
		if w, ok := b[k]; !ok || w != v {
			return false
		}
	}
	return true
}

// c23Equal is proto.Equal with a byte-level fallback (deterministic encoding)
// so that an exotic float payload can never produce a false alarm.
func c23Equal(a, b proto.Message) bool {
	if a == nil || b == nil {
		return a == nil && b == nil
	}
	if proto.Equal(a, b) {
		return true
	}
	if proto.MessageName(a) != proto.MessageName(b) {
		return false
	}
	ab, err1 := proto.MarshalOptions{Deterministic: true}.Marshal(a)
	bb, err2 := proto.MarshalOptions{Deterministic: true}.Marshal(b)
	return err1 == nil && err2 == nil && string(ab) == string(bb)
}

func c23Scribble(b []byte) {
	b = b[:cap(b)]
	for i := range b {
		b[i] = 0xA5
	}
}

const c23ClockTol = int64(50 * time.Millisecond)

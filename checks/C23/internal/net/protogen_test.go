//go:build verif

package net

// Reflective generator of arbitrary protobuf messages over the message types
// registered by the goakt wire schema (package internalpb), the repository's
// test protos (package testpb) and the well-known types they import.
//
// A generated message is carried in the (JSON) case as its type name plus its
// deterministic wire encoding; c23Build re-materialises it in Exec. Two
// post-construction tweaks that cannot be expressed through wire bytes cheaply
// (one very large field, one invalid UTF-8 string) are carried as small
// parameters and applied by c23Build.

import (
	"math"
	"sort"
	"strings"
	"sync"
	"unicode/utf8"

	"google.golang.org/protobuf/proto"
	"google.golang.org/protobuf/reflect/protoreflect"
	"google.golang.org/protobuf/reflect/protoregistry"
	"pgregory.net/rapid"

	_ "github.com/tochemey/goakt/v4/internal/internalpb"
	_ "github.com/tochemey/goakt/v4/test/data/testpb"
)

// c23Msg is the serialisable description of one generated message.
type c23Msg struct {
	Type    string `json:"type"`
	Wire    []byte `json:"wire"`
	BigLen  int    `json:"big_len,omitempty"`  // >0: the first top-level bytes/string field is overwritten with BigLen bytes
	BigByte byte   `json:"big_byte,omitempty"` // filler of the big field (ASCII)
	BadUTF8 bool   `json:"bad_utf8,omitempty"` // the first top-level string field is set to an invalid UTF-8 string
}

type c23TypeInfo struct {
	mt        protoreflect.MessageType
	name      string
	bigField  protoreflect.FieldDescriptor // first top-level singular bytes/string field outside a oneof, or nil
	strField  protoreflect.FieldDescriptor // first top-level singular proto3 string field (UTF-8 validated), or nil
	hasFields bool
}

var (
	c23TypesOnce sync.Once
	c23AllTypes  []c23TypeInfo // sorted by name: index is stable across runs
	c23BigTypes  []int         // indexes of types with a bigField
	c23StrTypes  []int         // indexes of types with a strField
	c23Fielded   []int         // indexes of types with at least one field
	c23PkgCount  = map[string]int{}
)

func c23Types() []c23TypeInfo {
	c23TypesOnce.Do(func() {
		protoregistry.GlobalTypes.RangeMessages(func(mt protoreflect.MessageType) bool {
			name := string(mt.Descriptor().FullName())
			pkg := string(mt.Descriptor().ParentFile().Package())
			switch {
			case pkg == "internalpb", pkg == "testpb":
			case name == "google.protobuf.Any", name == "google.protobuf.Duration", name == "google.protobuf.Timestamp",
				name == "google.protobuf.Empty", name == "google.protobuf.StringValue", name == "google.protobuf.BytesValue":
			default:
				return true
			}
			if mt.Descriptor().IsMapEntry() {
				return true
			}
			c23AllTypes = append(c23AllTypes, c23TypeInfo{mt: mt, name: name})
			return true
		})
		sort.Slice(c23AllTypes, func(i, j int) bool { return c23AllTypes[i].name < c23AllTypes[j].name })
		for i := range c23AllTypes {
			ti := &c23AllTypes[i]
			c23PkgCount[string(ti.mt.Descriptor().ParentFile().Package())]++
			fds := ti.mt.Descriptor().Fields()
			ti.hasFields = fds.Len() > 0
			for j := 0; j < fds.Len(); j++ {
				fd := fds.Get(j)
				if fd.IsList() || fd.IsMap() || fd.ContainingOneof() != nil {
					continue
				}
				if ti.bigField == nil && (fd.Kind() == protoreflect.BytesKind || fd.Kind() == protoreflect.StringKind) {
					ti.bigField = fd
				}
				if ti.strField == nil && fd.Kind() == protoreflect.StringKind && fd.Syntax() == protoreflect.Proto3 {
					ti.strField = fd
				}
			}
			if ti.hasFields {
				c23Fielded = append(c23Fielded, i)
			}
			if ti.bigField != nil {
				c23BigTypes = append(c23BigTypes, i)
			}
			if ti.strField != nil {
				c23StrTypes = append(c23StrTypes, i)
			}
		}
	})
	return c23AllTypes
}

func c23TypeByName(name string) *c23TypeInfo {
	ts := c23Types()
	i := sort.Search(len(ts), func(i int) bool { return ts[i].name >= name })
	if i < len(ts) && ts[i].name == name {
		return &ts[i]
	}
	return nil
}

// generator limits (DESIGN.md C23: depth <= 3, repeated <= 4, bytes <= 2 KiB)
type c23Limits struct {
	maxDepth int
	maxRep   int
	maxBytes int
}

var c23DefaultLimits = c23Limits{maxDepth: 3, maxRep: 4, maxBytes: 2048}
var c23SmallLimits = c23Limits{maxDepth: 2, maxRep: 2, maxBytes: 48}

// hostile constants: strings/bytes that look like pieces of the frame format
var c23HostileStrings = []string{
	"", "a", "internalpb.RemoteTell", "internalpb.", "testpb.TestSend", "google.protobuf.Any",
	"\x00", "\x00\x00\x00\x08", "\x00\x00\x00\x0c\x00\x00\x00\x00", "é", "\U0001F600", " ",
	"type.googleapis.com/internalpb.RemoteTell",
}

var c23HostileBytes = [][]byte{
	{}, {0}, {0xff}, {0, 0, 0, 8}, {0, 0, 0, 12}, {0, 0, 0, 8, 0, 0, 0, 0}, {0, 0, 0, 12, 0, 0, 0, 0, 0, 0, 0, 0},
	{0xff, 0xff, 0xff, 0xff}, {0x7f, 0xff, 0xff, 0xff}, {0x80, 0, 0, 0}, {0xff, 0xff}, {0, 0, 0xff, 0xff},
	[]byte("internalpb.RemoteTell"), {0x0a, 0x00}, {0x0a, 0xff, 0xff, 0xff, 0xff, 0x0f},
}

func c23GenString(t *rapid.T, lim c23Limits, label string) string {
	switch c23Uniform(t, label+"_sk", 10) {
	case 0:
		return ""
	case 1, 2:
		return c23Pick(t, label+"_hs", c23HostileStrings)
	case 3:
		n := c23Pick(t, label+"_sl", []int{1, 2, 127, 128, 255, 256, lim.maxBytes})
		if n > lim.maxBytes {
			n = lim.maxBytes
		}
		return strings.Repeat(c23Pick(t, label+"_sc", []string{"a", "z", "_", "0"}), n)
	case 4, 5:
		s := rapid.String().Draw(t, label+"_su")
		if len(s) > lim.maxBytes {
			s = strings.ToValidUTF8(s[:lim.maxBytes], "")
		}
		if !utf8.ValidString(s) {
			s = strings.ToValidUTF8(s, "?")
		}
		return s
	default:
		return rapid.StringMatching(`[a-zA-Z0-9_./:@-]{1,24}`).Draw(t, label+"_sa")
	}
}

func c23GenBytes(t *rapid.T, lim c23Limits, label string) []byte {
	switch c23Uniform(t, label+"_bk", 8) {
	case 0:
		return nil
	case 1, 2:
		return append([]byte(nil), c23Pick(t, label+"_hb", c23HostileBytes)...)
	case 3:
		n := c23Pick(t, label+"_bl", []int{1, 7, 8, 11, 12, 255, 256, lim.maxBytes})
		if n > lim.maxBytes {
			n = lim.maxBytes
		}
		b := make([]byte, n)
		fill := rapid.Byte().Draw(t, label+"_bf")
		for i := range b {
			b[i] = fill
		}
		return b
	default:
		n := 64
		if n > lim.maxBytes {
			n = lim.maxBytes
		}
		return rapid.SliceOfN(rapid.Byte(), 0, n).Draw(t, label+"_bb")
	}
}

func c23GenInt64(t *rapid.T, label string) int64 {
	switch c23Uniform(t, label+"_ik", 4) {
	case 0:
		return c23Pick(t, label+"_ib", []int64{0, 1, -1, 127, 128, 255, 256, 65535, 65536, math.MaxInt32, math.MinInt32, math.MaxInt64, math.MinInt64, 1 << 32, (1 << 32) - 1})
	case 1:
		return rapid.Int64Range(-300, 300).Draw(t, label+"_is")
	default:
		return rapid.Int64().Draw(t, label+"_ia")
	}
}

func c23GenFloat(t *rapid.T, label string) float64 {
	switch c23Uniform(t, label+"_fk", 3) {
	case 0:
		return c23Pick(t, label+"_fb", []float64{0, math.Copysign(0, -1), 1, -1, math.Inf(1), math.Inf(-1), math.NaN(), math.MaxFloat64, math.SmallestNonzeroFloat64, math.MaxFloat32, 0.1})
	default:
		return rapid.Float64().Draw(t, label+"_fa")
	}
}

func c23GenScalar(t *rapid.T, fd protoreflect.FieldDescriptor, lim c23Limits, label string) protoreflect.Value {
	switch fd.Kind() {
	case protoreflect.BoolKind:
		return protoreflect.ValueOfBool(rapid.Bool().Draw(t, label+"_b"))
	case protoreflect.EnumKind:
		vals := fd.Enum().Values()
		k := c23Uniform(t, label+"_e", vals.Len()+2)
		if k < vals.Len() {
			return protoreflect.ValueOfEnum(vals.Get(k).Number())
		}
		if fd.Enum().IsClosed() {
			return protoreflect.ValueOfEnum(vals.Get(0).Number())
		}
		// open (proto3) enums carry unknown numbers through the wire
		return protoreflect.ValueOfEnum(protoreflect.EnumNumber(c23Pick(t, label+"_eu", []int32{-1, 99, 1000, math.MaxInt32, math.MinInt32})))
	case protoreflect.Int32Kind, protoreflect.Sint32Kind, protoreflect.Sfixed32Kind:
		return protoreflect.ValueOfInt32(int32(c23GenInt64(t, label)))
	case protoreflect.Uint32Kind, protoreflect.Fixed32Kind:
		return protoreflect.ValueOfUint32(uint32(c23GenInt64(t, label)))
	case protoreflect.Int64Kind, protoreflect.Sint64Kind, protoreflect.Sfixed64Kind:
		return protoreflect.ValueOfInt64(c23GenInt64(t, label))
	case protoreflect.Uint64Kind, protoreflect.Fixed64Kind:
		return protoreflect.ValueOfUint64(uint64(c23GenInt64(t, label)))
	case protoreflect.FloatKind:
		return protoreflect.ValueOfFloat32(float32(c23GenFloat(t, label)))
	case protoreflect.DoubleKind:
		return protoreflect.ValueOfFloat64(c23GenFloat(t, label))
	case protoreflect.StringKind:
		return protoreflect.ValueOfString(c23GenString(t, lim, label))
	case protoreflect.BytesKind:
		return protoreflect.ValueOfBytes(c23GenBytes(t, lim, label))
	}
	panic("c23GenScalar: unexpected kind " + fd.Kind().String())
}

func c23IsMessageKind(fd protoreflect.FieldDescriptor) bool {
	return fd.Kind() == protoreflect.MessageKind || fd.Kind() == protoreflect.GroupKind
}

// c23Fill populates m through the reflection API. density is the per-field
// probability (in tenths) of a field being set.
func c23Fill(t *rapid.T, m protoreflect.Message, depth int, lim c23Limits, density int) {
	fds := m.Descriptor().Fields()
	oneofChoice := map[protoreflect.FullName]int{}
	for i := 0; i < fds.Len(); i++ {
		fd := fds.Get(i)
		label := string(fd.Name())
		if oo := fd.ContainingOneof(); oo != nil && !oo.IsSynthetic() {
			pick, ok := oneofChoice[oo.FullName()]
			if !ok {
				// -1 = leave the oneof unset
				pick = c23Uniform(t, string(oo.Name())+"_oneof", oo.Fields().Len()+1) - 1
				oneofChoice[oo.FullName()] = pick
			}
			if pick < 0 || oo.Fields().Get(pick).Number() != fd.Number() {
				continue
			}
		} else if c23Uniform(t, label+"_set", 10) >= density {
			continue
		}
		isMsg := c23IsMessageKind(fd)
		if isMsg && depth >= lim.maxDepth && !fd.IsMap() {
			continue
		}
		switch {
		case fd.IsMap():
			n := c23Uniform(t, label+"_mn", lim.maxRep+1)
			mp := m.Mutable(fd).Map()
			vd := fd.MapValue()
			for k := 0; k < n; k++ {
				key := c23GenScalar(t, fd.MapKey(), lim, label+"_mk").MapKey()
				if c23IsMessageKind(vd) {
					v := mp.NewValue()
					if depth < lim.maxDepth {
						c23Fill(t, v.Message(), depth+1, lim, density)
					}
					mp.Set(key, v)
				} else {
					mp.Set(key, c23GenScalar(t, vd, lim, label+"_mv"))
				}
			}
		case fd.IsList():
			n := c23Pick(t, label+"_ln", []int{0, 1, 1, 2, 3, lim.maxRep})
			l := m.Mutable(fd).List()
			for k := 0; k < n; k++ {
				if isMsg {
					v := l.NewElement()
					c23Fill(t, v.Message(), depth+1, lim, density)
					l.Append(v)
				} else {
					l.Append(c23GenScalar(t, fd, lim, label+"_le"))
				}
			}
		case isMsg:
			// Mutable makes the sub-message present even when it stays empty
			c23Fill(t, m.Mutable(fd).Message(), depth+1, lim, density)
		default:
			m.Set(fd, c23GenScalar(t, fd, lim, label))
		}
	}
	// occasionally attach well-formed unknown fields (they must survive the wire)
	if c23Chance(t, "unknown", 1, 16) {
		num := uint64(c23Pick(t, "unknown_num", []int{15000, 18999, 20000, 536870911}))
		if fds.ByNumber(protoreflect.FieldNumber(num)) == nil && !m.Descriptor().ExtensionRanges().Has(protoreflect.FieldNumber(num)) {
			var raw []byte
			raw = c23AppendVarint(raw, num<<3|0) // varint field
			raw = c23AppendVarint(raw, uint64(c23GenInt64(t, "unknown_v")))
			raw = c23AppendVarint(raw, (num-1)<<3|2) // length-delimited field
			b := c23GenBytes(t, c23SmallLimits, "unknown_b")
			raw = c23AppendVarint(raw, uint64(len(b)))
			raw = append(raw, b...)
			if fds.ByNumber(protoreflect.FieldNumber(num-1)) == nil {
				m.SetUnknown(raw)
			}
		}
	}
}

// c23Uniform draws an (almost) uniformly distributed integer in [0,n). rapid's
// integer generators are deliberately biased towards small magnitudes, which
// starves categorical choices with many alternatives; fair coin flips are not.
// All-false (the shrink target) maps to 0.
func c23Uniform(t *rapid.T, label string, n int) int {
	if n <= 1 {
		return 0
	}
	bits := 3
	for 1<<(bits-3) < n {
		bits++
	}
	v := 0
	for _, b := range rapid.SliceOfN(rapid.Bool(), bits, bits).Draw(t, label) {
		v <<= 1
		if b {
			v |= 1
		}
	}
	return v % n
}

// c23Pick is an unbiased rapid.SampledFrom.
func c23Pick[T any](t *rapid.T, label string, vals []T) T {
	return vals[c23Uniform(t, label, len(vals))]
}

// c23Chance is true with probability of about num/den; false is the shrink target.
func c23Chance(t *rapid.T, label string, num, den int) bool {
	return c23Uniform(t, label, den) >= den-num
}

func c23AppendVarint(b []byte, v uint64) []byte {
	for v >= 0x80 {
		b = append(b, byte(v)|0x80)
		v >>= 7
	}
	return append(b, byte(v))
}

// c23GenMsg draws a message of an arbitrary registered type.
func c23GenMsg(t *rapid.T, lim c23Limits, allowTweaks bool) c23Msg {
	ts := c23Types()
	var idx int
	tweak := 0
	if allowTweaks {
		// 16 big field, 17 invalid UTF-8, anything else: none
		tweak = c23Uniform(t, "tweak", 40)
	}
	switch {
	case tweak == 16 && len(c23BigTypes) > 0:
		idx = c23BigTypes[c23Uniform(t, "type_big", len(c23BigTypes))]
	case tweak == 17 && len(c23StrTypes) > 0:
		idx = c23StrTypes[c23Uniform(t, "type_str", len(c23StrTypes))]
	default:
		idx = c23Uniform(t, "type", len(ts))
		if !ts[idx].hasFields && len(c23Fielded) > 0 && c23Chance(t, "type_refill", 3, 4) {
			idx = c23Fielded[c23Uniform(t, "type_fielded", len(c23Fielded))]
		}
	}
	ti := ts[idx]
	m := ti.mt.New()
	density := []int{6, 8, 3, 10, 6, 9, 8, 5, 7, 10, 4, 6, 8, 2, 10, 0}[c23Uniform(t, "density", 16)]
	if density > 0 {
		c23Fill(t, m, 0, lim, density)
	}
	wire, err := proto.MarshalOptions{Deterministic: true}.Marshal(m.Interface())
	if err != nil {
		t.Fatalf("c23 generator produced an unmarshalable %s: %v", ti.name, err)
	}
	out := c23Msg{Type: ti.name, Wire: wire}
	switch {
	case tweak == 16 && ti.bigField != nil:
		out.BigLen = c23Pick(t, "big_len", []int{65535, 65536, 65537, 100000, 262144, 1 << 20})
		out.BigByte = c23Pick(t, "big_byte", []byte{'a', 'Z', '0', 0x7f})
	case tweak == 17 && ti.strField != nil:
		out.BadUTF8 = true
	}
	return out
}

// c23Build materialises a generated message. The second result is true when
// the message carries an invalid UTF-8 string (marshalling must then fail).
func c23Build(cm c23Msg) (proto.Message, bool, error) {
	ti := c23TypeByName(cm.Type)
	if ti == nil {
		return nil, false, protoregistry.NotFound
	}
	m := ti.mt.New()
	if err := proto.Unmarshal(cm.Wire, m.Interface()); err != nil {
		return nil, false, err
	}
	if cm.BigLen > 0 && ti.bigField != nil {
		b := make([]byte, cm.BigLen)
		for i := range b {
			b[i] = cm.BigByte
		}
		if ti.bigField.Kind() == protoreflect.StringKind {
			m.Set(ti.bigField, protoreflect.ValueOfString(string(b)))
		} else {
			m.Set(ti.bigField, protoreflect.ValueOfBytes(b))
		}
	}
	bad := false
	if cm.BadUTF8 && ti.strField != nil {
		m.Set(ti.strField, protoreflect.ValueOfString("bad\xff\xfeutf8"))
		bad = true
	}
	return m.Interface(), bad, nil
}

//go:build verif

package net

import (
	"context"
	"errors"
	"fmt"
	"io"
	stdnet "net"
	"sync"
	"testing"
	"time"

	"google.golang.org/protobuf/proto"
	"pgregory.net/rapid"

	"github.com/tochemey/goakt/v4/internal/vfkit"
)

// ---- unit exchange: the real Client send paths against the real server read loop ------

// c23Duplex is one end of an in-memory connection with unbounded buffering and
// blocking reads (a socket with infinitely large kernel buffers).
type c23Duplex struct {
	mu     *sync.Mutex
	cond   *sync.Cond
	inbox  *[]byte
	outbox *[]byte
	rdShut *bool // this end closed
	wrShut *bool // peer closed
	chunk  int
}

func c23NewDuplex(chunk int) (*c23Duplex, *c23Duplex) {
	mu := &sync.Mutex{}
	cond := sync.NewCond(mu)
	var ab, ba []byte
	var aClosed, bClosed bool
	a := &c23Duplex{mu: mu, cond: cond, inbox: &ba, outbox: &ab, rdShut: &aClosed, wrShut: &bClosed, chunk: chunk}
	b := &c23Duplex{mu: mu, cond: cond, inbox: &ab, outbox: &ba, rdShut: &bClosed, wrShut: &aClosed, chunk: chunk}
	return a, b
}

func (d *c23Duplex) Read(p []byte) (int, error) {
	d.mu.Lock()
	defer d.mu.Unlock()
	for len(*d.inbox) == 0 {
		if *d.rdShut {
			return 0, stdnet.ErrClosed
		}
		if *d.wrShut {
			return 0, io.EOF
		}
		d.cond.Wait()
	}
	if *d.rdShut {
		return 0, stdnet.ErrClosed
	}
	n := len(*d.inbox)
	if d.chunk > 0 && n > d.chunk {
		n = d.chunk
	}
	if n > len(p) {
		n = len(p)
	}
	copy(p, (*d.inbox)[:n])
	*d.inbox = (*d.inbox)[n:]
	return n, nil
}

func (d *c23Duplex) Write(p []byte) (int, error) {
	d.mu.Lock()
	defer d.mu.Unlock()
	if *d.rdShut {
		return 0, stdnet.ErrClosed
	}
	if *d.wrShut {
		return 0, io.ErrClosedPipe
	}
	*d.outbox = append(*d.outbox, p...)
	d.cond.Broadcast()
	return len(p), nil
}

func (d *c23Duplex) Close() error {
	d.mu.Lock()
	*d.rdShut = true
	d.cond.Broadcast()
	d.mu.Unlock()
	return nil
}
func (d *c23Duplex) LocalAddr() stdnet.Addr {
	return &stdnet.TCPAddr{IP: stdnet.IPv4(127, 0, 0, 1), Port: 1}
}
func (d *c23Duplex) RemoteAddr() stdnet.Addr {
	return &stdnet.TCPAddr{IP: stdnet.IPv4(127, 0, 0, 1), Port: 2}
}
func (d *c23Duplex) SetDeadline(time.Time) error      { return nil }
func (d *c23Duplex) SetReadDeadline(time.Time) error  { return nil }
func (d *c23Duplex) SetWriteDeadline(time.Time) error { return nil }

const (
	c23ModeEach    = 0 // one SendProtoWithMetadata per request
	c23ModeBatch   = 1 // SendBatchProto
	c23ModeNoReply = 2 // SendProtoNoReply per request
	c23ModeMany    = 3 // SendProtoManyNoReply
)

type c23ExCase struct {
	Reqs   []c23Msg    `json:"reqs"`
	Meta   bool        `json:"meta"` // requests carry metadata through the context
	Hdrs   []c23Header `json:"hdrs,omitempty"`
	Offset int64       `json:"offset_ns,omitempty"` // deadline = now + offset when != 0 (metadata only, not a context deadline)
	Mode   int         `json:"mode"`
	Chunk  int         `json:"chunk"` // transport segment size (0 = unlimited)
}

func c23GenEx(t *rapid.T) c23ExCase {
	var c c23ExCase
	n := []int{1, 2, 3, 4, 5, 2, 3, 1}[c23Uniform(t, "nreqs", 8)]
	big := 1
	for i := 0; i < n; i++ {
		m := c23GenMsg(t, c23DefaultLimits, big > 0)
		m.BadUTF8 = false
		if m.BigLen > 0 {
			big--
		}
		c.Reqs = append(c.Reqs, m)
	}
	c.Meta = c23Uniform(t, "meta", 3) > 0
	if c.Meta {
		nh := []int{0, 1, 2, 3, 5, 8, 1, 2}[c23Uniform(t, "nh", 8)]
		for i := 0; i < nh; i++ {
			c.Hdrs = append(c.Hdrs, c23Header{K: c23GenStr(t, "hk", false), V: c23GenStr(t, "hv", false)})
		}
		if c23Uniform(t, "dl", 2) == 1 {
			c.Offset = rapid.Int64Range(1, 3600).Draw(t, "dl_s") * int64(time.Second)
			if c23Uniform(t, "dl_past", 4) == 0 {
				c.Offset = -c.Offset
			}
		}
	}
	c.Mode = c23Uniform(t, "mode", 4)
	c.Chunk = []int{0, 1, 3, 7, 13, 100, 4096, 0}[c23Uniform(t, "chunk", 8)]
	return c
}

func c23ExecEx(x *vfkit.X, c c23ExCase) {
	ps, err := c23Server()
	if err != nil {
		panic(err)
	}
	var reqs []proto.Message
	total := 0
	for _, m := range c.Reqs {
		msg, _, err := c23Build(m)
		if err != nil {
			panic(err)
		}
		reqs = append(reqs, msg)
		total += proto.Size(msg)
	}
	chunk := c.Chunk
	if chunk > 0 && total/chunk > 4096 {
		chunk = total/4096 + chunk
	}
	cliEnd, srvEnd := c23NewDuplex(chunk)

	ps.maxFrameSize = defaultMaxFrameSize
	c23Srv.calls = nil
	noReply := c.Mode >= c23ModeNoReply
	c23Srv.reply = func(int) bool { return !noReply }
	// the handler runs on the server goroutine; c23Srv.calls is only read after it has exited
	srvDone := make(chan any, 1)
	go func() {
		defer func() { srvDone <- recover() }()
		ps.handleConn(&TCPConn{Conn: srvEnd})
	}()
	// watchdog: guarantees termination; firing is inconclusive, never a violation
	fired := make(chan struct{})
	wd := time.AfterFunc(60*time.Second, func() { close(fired); _ = cliEnd.Close(); _ = srvEnd.Close() })
	defer wd.Stop()

	client := NewClient("127.0.0.1:1")
	client.idle = append(client.idle, idleConn{conn: newBufferedConn(cliEnd), since: time.Now().UnixNano()})

	ctx := context.Background()
	want := map[string]string{}
	var deadline int64
	t0 := time.Now().UnixNano()
	if c.Meta {
		md := NewMetadata()
		for _, h := range c.Hdrs {
			md.Set(h.K.str(), h.V.str())
			want[h.K.str()] = h.V.str()
		}
		if c.Offset != 0 {
			deadline = t0 + c.Offset
			md.SetDeadline(time.Unix(0, deadline))
		}
		ctx = ContextWithMetadata(ctx, md)
	}

	var resps []proto.Message
	var sendErr error
	func() {
		defer func() {
			if p := recover(); p != nil {
				sendErr = fmt.Errorf("client panicked: %v", p)
			}
		}()
		switch c.Mode {
		case c23ModeEach:
			for _, r := range reqs {
				resp, md, err := client.SendProtoWithMetadata(ctx, r)
				if err != nil {
					sendErr = err
					return
				}
				if md != nil {
					sendErr = errors.New("response metadata out of nothing")
					return
				}
				resps = append(resps, resp)
			}
		case c23ModeBatch:
			resps, sendErr = client.SendBatchProto(ctx, reqs)
		case c23ModeNoReply:
			for _, r := range reqs {
				if sendErr = client.SendProtoNoReply(ctx, r); sendErr != nil {
					return
				}
			}
		default:
			sendErr = client.SendProtoManyNoReply(ctx, reqs)
		}
	}()
	_ = client.Close() // closes the pooled connection: the server loop sees EOF after draining
	_ = cliEnd.Close()
	pan := <-srvDone
	t1 := time.Now().UnixNano()
	_ = srvEnd.Close()
	select {
	case <-fired:
		x.Class("inconclusive_watchdog")
		return
	default:
	}
	calls := c23Srv.calls
	c23Srv.calls = nil
	if pan != nil {
		x.Failf("server-panic", "ProtoServer.handleConn panicked: %v", pan)
	}
	if sendErr != nil {
		x.Failf("client-exchange-failed", "mode %d, %d requests, metadata=%v: %v", c.Mode, len(reqs), c.Meta, sendErr)
	}
	x.Class(fmt.Sprintf("mode=%d", c.Mode))
	if len(calls) != len(reqs) {
		x.Failf("exchange-dispatch-count", "mode %d: %d requests sent, %d dispatched by the server", c.Mode, len(reqs), len(calls))
	}
	for i, r := range reqs {
		if !c23Equal(calls[i].msg, r) {
			x.Failf("exchange-request-differs", "request %d (%s) reached the handler altered", i, proto.MessageName(r))
		}
		if calls[i].key != c23ExpectedKey(string(proto.MessageName(r))) {
			x.Failf("server-dispatch-key", "request %d (%s) went to handler %q", i, proto.MessageName(r), calls[i].key)
		}
		s := &c23Sent{hasMeta: c.Meta, headers: want, deadline: deadline, encT0: t0}
		c23CheckMD(x, fmt.Sprintf("request %d", i), s, calls[i].md, t1)
	}
	if !noReply {
		if len(resps) != len(reqs) {
			x.Failf("exchange-response-count", "%d requests, %d responses", len(reqs), len(resps))
		}
		for i, r := range reqs {
			if !c23Equal(resps[i], r) {
				x.Failf("exchange-response-differs", "response %d is not the echo of request %d (%s)", i, i, proto.MessageName(r))
			}
		}
	}
	if len(reqs) >= 2 || len(want) >= 1 {
		x.NonTrivial()
	}
	if c.Meta {
		x.Class("with_metadata")
	}
}

func TestVF_C23_exchange(t *testing.T) {
	vfkit.Run(t, vfkit.Spec[c23ExCase]{
		ID: "C23", Unit: "exchange",
		Rule: "cases = 1..5 arbitrary registered messages sent through Client.SendProtoWithMetadata / SendBatchProto / SendProtoNoReply / SendProtoManyNoReply (metadata with 0..8 headers and optional deadline in the context, or none) over an in-memory connection with generated segmenting to the real ProtoServer read loop echoing every request; requests, metadata and responses must arrive equal and in order; non-trivial = >=2 requests or >=1 header; distinct = distinct case",
		Gen:  c23GenEx, Exec: c23ExecEx,
	})
}

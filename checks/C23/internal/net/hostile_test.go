//go:build verif

package net

import (
	"bytes"
	"encoding/binary"
	"errors"
	"fmt"
	"runtime"
	"testing"
	"time"

	"google.golang.org/protobuf/proto"
	"pgregory.net/rapid"

	"github.com/tochemey/goakt/v4/internal/vfkit"
)

// ---- hostile input: mutated valid frames and arbitrary bytes ---------------------

// c23Mut is one mutation. Field mutations address a frame (Frame) before the
// frames are concatenated; stream mutations address the concatenation.
type c23Mut struct {
	Op    int   `json:"op"`    // see c23Op*
	Frame int   `json:"frame"` // frame index (field mutations)
	Field int   `json:"field"` // 0 totalLen, 1 nameLen, 2 third word (metaLen / name start), 3 word at Off
	Val   int   `json:"val"`   // value selector, see c23U32Value / c23U16Value
	Delta int   `json:"delta"` // small signed adjustment of the selected value
	Off   int   `json:"off"`   // offset selector (taken modulo the length)
	Len   int   `json:"len"`   // length for insert/delete
	Byte  byte  `json:"byte"`  // xor mask / fill byte
	Raw   int64 `json:"raw"`   // literal value for Val == literal
}

const (
	c23OpSetU32 = iota
	c23OpSetU16Meta
	c23OpTruncateFrame
	c23OpExtendFrame
	c23OpTruncateStream
	c23OpFlipByte
	c23OpInsert
	c23OpDelete
	c23OpCount
)

type c23HostCase struct {
	Frames  []c23Frame `json:"frames"` // 0..2 small valid frames as mutation base
	Muts    []c23Mut   `json:"muts"`
	Tail    []byte     `json:"tail"`     // arbitrary bytes appended to the stream
	MaxKind int        `json:"max_kind"` // 0: 64, 1: 4 KiB, 2: 16 MiB, 3: len(first frame)-1, 4: len(first frame), 5: len(first frame)+1
	Chunks  []int      `json:"chunks"`
}

func c23GenHostile(t *rapid.T) c23HostCase {
	var c c23HostCase
	n := []int{1, 1, 0, 1, 2, 1, 2, 0}[c23Uniform(t, "nframes", 8)]
	for i := 0; i < n; i++ {
		c.Frames = append(c.Frames, c23GenFrame(t, c23SmallLimits, false))
	}
	nm := []int{1, 0, 1, 1, 2, 2, 3, 5}[c23Uniform(t, "nmuts", 8)]
	if n == 0 {
		nm = 0
	}
	for i := 0; i < nm; i++ {
		m := c23Mut{
			Op:    []int{c23OpSetU32, c23OpSetU32, c23OpSetU32, c23OpSetU32, c23OpSetU16Meta, c23OpSetU16Meta, c23OpTruncateFrame, c23OpExtendFrame, c23OpTruncateStream, c23OpFlipByte, c23OpInsert, c23OpDelete}[c23Uniform(t, "op", 12)],
			Frame: rapid.IntRange(0, n-1).Draw(t, "mframe"),
			Field: []int{0, 0, 1, 1, 2, 2, 3}[c23Uniform(t, "field", 7)],
			Val:   c23Uniform(t, "val", c23ValKinds),
			Delta: []int{0, 0, 0, 1, -1, 2, -2, 4, -4}[c23Uniform(t, "delta", 9)],
			Off:   rapid.IntRange(0, 1<<16).Draw(t, "off"),
			Len:   rapid.IntRange(1, 16).Draw(t, "len"),
			Byte:  rapid.Byte().Draw(t, "byte"),
		}
		if m.Val == c23ValLiteral {
			m.Raw = int64(rapid.Uint32().Draw(t, "raw"))
		}
		c.Muts = append(c.Muts, m)
	}
	switch c23Uniform(t, "tail_kind", 6) {
	case 0:
		c.Tail = rapid.SliceOfN(rapid.Byte(), 0, 64).Draw(t, "tail")
	case 1:
		// a hostile header: length fields drawn from boundary values, then garbage
		var b []byte
		for i := 0; i < 3; i++ {
			b = binary.BigEndian.AppendUint32(b, rapid.SampledFrom([]uint32{0, 1, 7, 8, 9, 11, 12, 13, 20, 32, 64, 65, 4096, 4097, 1 << 24, 1<<24 + 1, 1 << 26, 0x7fffffff, 0x80000000, 0xfffffff4, 0xfffffff8, 0xffffffff}).Draw(t, "tail_u32"))
		}
		b = append(b, rapid.SliceOfN(rapid.Byte(), 0, 80).Draw(t, "tail_rest")...)
		c.Tail = b
	}
	if n == 0 && len(c.Tail) == 0 {
		c.Tail = rapid.SliceOfN(rapid.Byte(), 1, 40).Draw(t, "tail_only")
	}
	c.MaxKind = c23Uniform(t, "max_kind", 6)
	c.Chunks = c23GenChunks(t)
	return c
}

const (
	c23ValLiteral = 22
	c23ValKinds   = 23
)

// c23U32Value resolves a value selector against the frame it is written into.
func c23U32Value(m c23Mut, frame []byte, maxFrame uint32) uint32 {
	L := int64(len(frame))
	nameLen := int64(0)
	if len(frame) >= 8 {
		nameLen = int64(binary.BigEndian.Uint32(frame[4:8]))
	}
	var v int64
	switch m.Val {
	case 0:
		v = 0
	case 1:
		v = 1
	case 2:
		v = 7
	case 3:
		v = 8
	case 4:
		v = 9
	case 5:
		v = 11
	case 6:
		v = 12
	case 7:
		v = 13
	case 8:
		v = L
	case 9:
		v = L - 8
	case 10:
		v = L - 12
	case 11:
		v = L - 8 - nameLen
	case 12:
		v = L - 12 - nameLen
	case 13:
		v = nameLen
	case 14:
		v = int64(maxFrame)
	case 15:
		v = 0x7fffffff
	case 16:
		v = 0x80000000
	case 17:
		v = 0xffffffff
	case 18:
		v = 0xfffffff8
	case 19:
		v = 0xfffffff4
	case 20:
		v = 0x100000000 - nameLen // 8+nameLen wraps in 32-bit arithmetic
	case 21:
		v = 10 // smallest metadata section
	default:
		v = m.Raw
	}
	if m.Val < 15 || m.Val == 21 {
		v += int64(m.Delta)
	}
	return uint32(v)
}

// c23MetaSection locates the metadata section of a well-formed metadata-format frame.
func c23MetaSection(frame []byte) (start, end int, ok bool) {
	if len(frame) < 12 {
		return 0, 0, false
	}
	nl := int(binary.BigEndian.Uint32(frame[4:8]))
	ml := int(binary.BigEndian.Uint32(frame[8:12]))
	if nl < 0 || ml <= 0 || 12+nl+ml > len(frame) {
		return 0, 0, false
	}
	return 12 + nl, 12 + nl + ml, true
}

func c23ApplyFieldMut(m c23Mut, frame []byte, metaFmt bool, maxFrame uint32) []byte {
	switch m.Op {
	case c23OpSetU32:
		off := 0
		switch m.Field {
		case 0:
			off = 0
		case 1:
			off = 4
		case 2:
			off = 8
		default:
			off = m.Off
		}
		if len(frame) < 4 {
			return frame
		}
		if off+4 > len(frame) {
			off = off % (len(frame) - 3)
		}
		binary.BigEndian.PutUint32(frame[off:], c23U32Value(m, frame, maxFrame))
	case c23OpSetU16Meta:
		s, e, ok := 0, 0, false
		if metaFmt {
			s, e, ok = c23MetaSection(frame)
		}
		if !ok || e-s < 2 {
			return frame
		}
		var off int
		switch m.Field {
		case 0, 1:
			off = s // header count
		case 2:
			off = s + 2 // first key length
		default:
			off = s + m.Off%(e-s-1)
		}
		if off+2 > len(frame) {
			return frame
		}
		cur := int(binary.BigEndian.Uint16(frame[off:]))
		var v int
		switch m.Val % 8 {
		case 0:
			v = 0
		case 1:
			v = 1
		case 2:
			v = 0xffff
		case 3:
			v = 0x7fff
		case 4:
			v = cur + 1
		case 5:
			v = cur - 1
		case 6:
			v = e - s // section length
		default:
			v = (e - s - 10) / 4 // the largest count the section could hold
		}
		binary.BigEndian.PutUint16(frame[off:], uint16(v+m.Delta))
	case c23OpTruncateFrame:
		if len(frame) > 0 {
			frame = frame[:m.Off%len(frame)]
		}
	case c23OpExtendFrame:
		frame = append(frame, bytes.Repeat([]byte{m.Byte}, m.Len)...)
	}
	return frame
}

func c23ApplyStreamMut(m c23Mut, s []byte) []byte {
	if len(s) == 0 {
		return s
	}
	off := m.Off % len(s)
	switch m.Op {
	case c23OpTruncateStream:
		return s[:off]
	case c23OpFlipByte:
		mask := m.Byte
		if mask == 0 {
			mask = 0x80
		}
		s[off] ^= mask
	case c23OpInsert:
		ins := bytes.Repeat([]byte{m.Byte}, m.Len)
		s = append(s[:off:off], append(ins, s[off:]...)...)
	case c23OpDelete:
		end := off + m.Len
		if end > len(s) {
			end = len(s)
		}
		s = append(s[:off:off], s[end:]...)
	}
	return s
}

// c23HostileStream builds the byte stream of a case. It reports whether at
// least one valid frame was used as mutation base and the number of mutations applied.
func c23HostileStream(c c23HostCase) (stream []byte, maxFrame uint32, base int) {
	ser := NewProtoSerializer()
	var frames [][]byte
	var metaFmt []bool
	for _, f := range c.Frames {
		msg, _, err := c23Build(f.Msg)
		if err != nil {
			continue
		}
		var data []byte
		switch f.Enc {
		case c23EncLegacy:
			data, err = ser.MarshalBinary(msg)
		case c23EncMetaNil:
			data, err = ser.MarshalBinaryWithMetadata(msg, nil)
		default:
			md, _, _ := c23BuildMD(f, time.Now().UnixNano())
			data, err = ser.MarshalBinaryWithMetadata(msg, md)
		}
		if err != nil {
			continue
		}
		frames = append(frames, data)
		metaFmt = append(metaFmt, f.Enc != c23EncLegacy)
	}
	base = len(frames)
	first := 64
	if len(frames) > 0 {
		first = len(frames[0])
	}
	switch c.MaxKind {
	case 0:
		maxFrame = 64
	case 1:
		maxFrame = 4096
	case 2:
		maxFrame = defaultMaxFrameSize
	case 3:
		maxFrame = uint32(first - 1)
	case 4:
		maxFrame = uint32(first)
	default:
		maxFrame = uint32(first + 1)
	}
	for _, m := range c.Muts {
		if m.Op <= c23OpExtendFrame && m.Frame < len(frames) {
			frames[m.Frame] = c23ApplyFieldMut(m, frames[m.Frame], metaFmt[m.Frame], maxFrame)
		}
	}
	for _, f := range frames {
		stream = append(stream, f...)
	}
	stream = append(stream, c.Tail...)
	for _, m := range c.Muts {
		if m.Op > c23OpExtendFrame {
			stream = c23ApplyStreamMut(m, stream)
		}
	}
	return stream, maxFrame, base
}

// c23Guard runs f and converts a panic of the code under test into a violation.
func c23Guard(x *vfkit.X, fp, what string, f func()) {
	defer func() {
		if p := recover(); p != nil {
			// the kit's own sentinel must pass through untouched
			if fmt.Sprintf("%T", p) == "*vfkit.failure" {
				panic(p)
			}
			x.Failf(fp, "%s panicked: %v", what, p)
		}
	}()
	f()
}

// c23CheckDecoded compares one decoder result with the reference.
func c23CheckDecoded(x *vfkit.X, what string, ref c23Ref, msg proto.Message, md *Metadata, name string, err error, t0, t1 int64, withMD bool) {
	if (msg == nil) == (err == nil) {
		x.Failf("decoder-neither-error-nor-message", "%s: msg nil=%v, err=%v", what, msg == nil, err)
	}
	if !ref.ok() {
		if err == nil {
			x.Failf("malformed-frame-accepted", "%s: the documented layout rejects this input (%s), the decoder returned a %s", what, c23Classes(ref.errs), proto.MessageName(msg))
		}
		if !c23ErrAccepted(err, ref.errs) {
			x.Failf("malformed-frame-wrong-sentinel", "%s: got error %q, documented: %s", what, err, c23Classes(ref.errs))
		}
		return
	}
	if err != nil {
		if withMD && ref.md.present && ref.md.trailing && errors.Is(err, ErrInvalidMetadata) {
			x.Class("md_trailing_bytes_rejected")
			return // trailing bytes inside the metadata section: the specification is silent
		}
		x.Failf("wellformed-frame-rejected", "%s: the input is well-formed by the documented layout (type %s), the decoder returned %v", what, ref.name, err)
	}
	if name != ref.name || string(proto.MessageName(msg)) != ref.name {
		x.Failf("hostile-type-name", "%s: decoded type %q / %s, layout says %q", what, name, proto.MessageName(msg), ref.name)
	}
	if !c23Equal(msg, ref.msg) {
		x.Failf("hostile-message-differs", "%s: decoded %s differs from the payload decoded by the reference", what, ref.name)
	}
	if !withMD {
		return
	}
	if !ref.md.present {
		if md != nil {
			x.Failf("metadata-out-of-nothing", "%s: metaLen is 0 but metadata was returned", what)
		}
		return
	}
	if md == nil {
		x.Failf("metadata-lost", "%s: metaLen > 0 but no metadata was returned", what)
	}
	if !ref.md.dupKeys && !c23MapsEqual(c23HeadersOf(md), ref.md.headers) {
		x.Failf("hostile-headers-differ", "%s: decoded headers differ from the section content", what)
	}
	dl, has := md.GetDeadline()
	if has != (ref.md.remaining != 0) {
		x.Failf("hostile-deadline-presence", "%s: remaining=%d, deadline present=%v", what, ref.md.remaining, has)
	}
	if has && ref.md.remaining > -(1<<61) && ref.md.remaining < 1<<61 {
		got := dl.UnixNano()
		if got < t0+ref.md.remaining-c23ClockTol || got > t1+ref.md.remaining+c23ClockTol {
			x.Failf("hostile-deadline-drift", "%s: remaining=%d decoded to %d, clock window [%d,%d]", what, ref.md.remaining, got, t0, t1)
		}
	}
}

func c23ExecHostile(x *vfkit.X, c c23HostCase) {
	stream, maxFrame, base := c23HostileStream(c)
	ser := NewProtoSerializer()
	pool := NewFramePool()
	client := &Client{serializer: ser, framePool: pool, maxFrameSize: maxFrame}
	if base > 0 && len(c.Muts) > 0 {
		x.Class("mutated_valid")
	} else if base > 0 {
		x.Class("valid_plus_tail")
	} else {
		x.Class("arbitrary_bytes")
	}
	reached := false

	// ---- the three decoders on the raw stream (data may be longer than the frame) ----
	decodeAll := func(what string, data []byte) {
		own := append([]byte(nil), data...)
		t0 := time.Now().UnixNano()
		var (
			m1, m2, m3 proto.Message
			d2, d3     *Metadata
			n1, n2     string
			e1, e2, e3 error
		)
		c23Guard(x, "decoder-panic-legacy", what+": UnmarshalBinary", func() {
			m, n, err := ser.UnmarshalBinary(own)
			m1, n1, e1 = m, string(append([]byte(nil), n...)), err
		})
		c23Guard(x, "decoder-panic-meta", what+": UnmarshalBinaryWithMetadata", func() {
			m, d, n, err := ser.UnmarshalBinaryWithMetadata(own)
			m2, d2, n2, e2 = m, d, string(append([]byte(nil), n...)), err
		})
		c23Guard(x, "decoder-panic-client", what+": unmarshalProtoResponse", func() {
			m3, d3, e3 = client.unmarshalProtoResponse(own)
		})
		t1 := time.Now().UnixNano()
		if !bytes.Equal(own, data) {
			x.Failf("decoder-modified-input", "%s: a decoder wrote into its input", what)
		}
		c23Scribble(own) // decoded values must not alias the (pooled) frame
		rl, rm := c23RefLegacy(data), c23RefMeta(data)
		if rl.reachedTy || rm.reachedTy {
			reached = true
		}
		if rl.ok() {
			x.Class("legacy_wellformed")
		}
		if rm.ok() {
			x.Class("meta_wellformed")
		}
		for _, r := range []c23Ref{rl, rm} {
			for _, k := range r.errs {
				x.Class("ref_" + c23ErrName(k))
			}
		}
		c23CheckDecoded(x, what+": UnmarshalBinary", rl, m1, nil, n1, e1, t0, t1, false)
		c23CheckDecoded(x, what+": UnmarshalBinaryWithMetadata", rm, m2, d2, n2, e2, t0, t1, true)
		// client detection: an error, or one of the two documented readings
		if (m3 == nil) == (e3 == nil) {
			x.Failf("decoder-neither-error-nor-message", "%s: unmarshalProtoResponse: msg nil=%v err=%v", what, m3 == nil, e3)
		}
		if e3 == nil {
			asLegacy := rl.ok() && d3 == nil && c23Equal(m3, rl.msg)
			asMeta := rm.ok() && c23Equal(m3, rm.msg) && (d3 != nil) == rm.md.present &&
				(d3 == nil || rm.md.dupKeys || c23MapsEqual(c23HeadersOf(d3), rm.md.headers))
			if !asLegacy && !asMeta {
				x.Failf("client-detect-invented-message", "%s: unmarshalProtoResponse returned a %s that neither documented layout yields (legacy ok=%v, metadata ok=%v)", what, proto.MessageName(m3), rl.ok(), rm.ok())
			}
		} else if rl.ok() || (rm.ok() && !rm.md.trailing) {
			// the client promises to read both layouts transparently
			x.Failf("client-detect-lost-frame", "%s: well-formed frame (legacy ok=%v, metadata ok=%v) rejected by unmarshalProtoResponse: %v", what, rl.ok(), rm.ok(), e3)
		}
	}
	decodeAll("stream", stream)

	// ---- frame reader on the stream, then the decoders on every frame it yields ----
	rd := &c23Reader{data: stream, chunks: c.Chunks}
	pos := 0
	nframes := 0
	for {
		var frame []byte
		var err error
		c23Guard(x, "frame-reader-panic", "readProtoFrame", func() { frame, err = readProtoFrame(rd, pool, maxFrame) })
		rest := stream[pos:]
		// reference: [4-byte big-endian total length covering the whole frame]
		switch {
		case len(rest) < 4:
			if err == nil {
				x.Failf("frame-reader-invented-frame", "readProtoFrame returned a frame from %d remaining bytes", len(rest))
			}
		default:
			total := uint64(binary.BigEndian.Uint32(rest[:4]))
			switch {
			case total < 8:
				if !errors.Is(err, ErrInvalidMessageLength) {
					x.Failf("frame-reader-short-length-accepted", "totalLen=%d: got (%d bytes, %v), want ErrInvalidMessageLength", total, len(frame), err)
				}
			case total > uint64(maxFrame):
				x.Class("oversized_frame_header")
				if !errors.Is(err, ErrFrameTooLarge) {
					x.Failf("frame-reader-oversized-accepted", "totalLen=%d > max %d: got (%d bytes, %v), want ErrFrameTooLarge", total, maxFrame, len(frame), err)
				}
			case uint64(len(rest)) < total:
				x.Class("truncated_frame_body")
				if err == nil {
					x.Failf("frame-reader-invented-frame", "totalLen=%d but only %d bytes remain: a frame of %d bytes was returned", total, len(rest), len(frame))
				}
			default:
				if err != nil {
					x.Failf("frame-reader-rejected-complete-frame", "totalLen=%d (max %d), %d bytes available: %v", total, maxFrame, len(rest), err)
				}
				if !bytes.Equal(frame, rest[:total]) {
					x.Failf("frame-boundary", "readProtoFrame returned %d bytes that are not the next %d bytes of the stream", len(frame), total)
				}
			}
		}
		if err != nil {
			break
		}
		if len(frame) > int(maxFrame) || len(frame) < 8 {
			x.Failf("frame-reader-oversized-accepted", "readProtoFrame returned a frame of %d bytes, max %d", len(frame), maxFrame)
		}
		nframes++
		pos += len(frame)
		decodeAll(fmt.Sprintf("frame %d", nframes), frame)
		c23Scribble(frame)
		pool.Put(frame)
		if nframes > 64 {
			break
		}
	}
	if lim := int(maxFrame) - 4; rd.maxReq > lim && rd.maxReq > 4 {
		x.Failf("read-buffer-above-max", "readProtoFrame asked the transport to fill %d bytes, max frame %d", rd.maxReq, maxFrame)
	}

	// ---- server read loop on the same stream ----
	calls, out, srvMaxReq, pan := c23Serve(stream, c.Chunks, maxFrame, nil)
	if pan != nil {
		x.Failf("server-panic", "ProtoServer.handleConn panicked: %v", pan)
	}
	if lim := int(maxFrame) - 4; srvMaxReq > lim && srvMaxReq > readBufferSize {
		x.Failf("server-read-buffer-above-max", "server asked the transport to fill %d bytes, max frame %d", srvMaxReq, maxFrame)
	}
	// reference of the loop: frames in sequence; metadata layout first, legacy as fallback
	// when the metadata reading fails on its length checks; anything else closes the connection.
	pos = 0
	ci := 0
	for {
		rest := stream[pos:]
		if len(rest) < 4 {
			break
		}
		total := uint64(binary.BigEndian.Uint32(rest[:4]))
		if total < 8 || total > uint64(maxFrame) || uint64(len(rest)) < total {
			break
		}
		frame := rest[:total]
		rm, rl := c23RefMeta(frame), c23RefLegacy(frame)
		metaLenFail := !rm.ok() && len(rm.errs) == 1 && rm.errs[0] == c23ErrLen
		var r *c23Ref
		mandatory := true
		switch {
		case rm.ok():
			r = &rm
			if rm.md.present && rm.md.trailing {
				mandatory = false // bytes after the remaining-time field: the specification is silent
			}
		case metaLenFail && rl.ok():
			r = &rl
		case metaLenFail:
			// neither layout: the connection is closed
		default:
			// the metadata reading fails past its length checks (unknown type, bad metadata, bad
			// payload): closing is the documented outcome; a legacy reading, if one exists, is tolerated
			if rl.ok() && ci < len(calls) && c23Equal(calls[ci].msg, rl.msg) {
				r = &rl
			}
			mandatory = false
		}
		if r == nil {
			break
		}
		if ci >= len(calls) {
			if mandatory {
				x.Failf("server-dropped-wellformed-frame", "frame at offset %d (%d bytes, type %s) is well-formed but the server stopped after %d dispatches", pos, total, r.name, len(calls))
			}
			break
		}
		call := calls[ci]
		if !c23Equal(call.msg, r.msg) {
			x.Failf("server-invented-message", "dispatch %d: handler received a %s that differs from the documented reading of the frame at offset %d", ci, proto.MessageName(call.msg), pos)
		}
		if call.key != c23ExpectedKey(r.name) {
			x.Failf("server-dispatch-key", "dispatch %d: type %s went to handler %q", ci, r.name, call.key)
		}
		if r.md.present != (call.md != nil) {
			x.Failf("server-metadata-presence", "dispatch %d: metadata section present=%v, handler context metadata=%v", ci, r.md.present, call.md != nil)
		}
		if call.md != nil && r.md.present && !r.md.dupKeys && !c23MapsEqual(c23HeadersOf(call.md), r.md.headers) {
			x.Failf("server-headers-differ", "dispatch %d: handler metadata headers differ from the section", ci)
		}
		ci++
		pos += int(total)
	}
	if ci < len(calls) {
		x.Failf("server-dispatched-malformed-frame", "server dispatched %d messages, the documented reading of the stream yields %d (max frame %d)", len(calls), ci, maxFrame)
	}
	if len(calls) > 0 {
		x.Class("server_dispatched")
		// every dispatch is echoed as a legacy frame
		ord := &c23Reader{data: out}
		for i := range calls {
			fr, err := readProtoFrame(ord, nil, 1<<32-1)
			if err != nil {
				x.Failf("response-read-failed", "response %d: %v", i, err)
			}
			m, _, err := ser.UnmarshalBinary(fr)
			if err != nil || !c23Equal(m, calls[i].msg) {
				x.Failf("response-differs", "response %d does not decode to the echoed message: %v", i, err)
			}
		}
	}
	if nframes > 0 {
		x.Class("reader_yielded_frame")
	}
	if reached && base > 0 && len(c.Muts) > 0 {
		x.Class("mutated_reaches_type_lookup")
		x.NonTrivial()
	}
	if reached && base == 0 {
		x.Class("arbitrary_reaches_type_lookup")
		x.NonTrivial()
	}
}

func TestVF_C23_hostile(t *testing.T) {
	vfkit.Run(t, vfkit.Spec[c23HostCase]{
		ID: "C23", Unit: "hostile",
		Rule: "cases = byte stream made of 0..2 small valid frames (both layouts) with 0..5 mutations (length fields set to boundary values relative to frame/name/max sizes, metadata count/length fields, truncation/extension, byte flips, inserts, deletes) plus an arbitrary or boundary-header tail, maxFrameSize in {64, 4KiB, 16MiB, first frame -1/0/+1}, generated transport chunking; decoded by UnmarshalBinary, UnmarshalBinaryWithMetadata, Client.unmarshalProtoResponse, readProtoFrame and ProtoServer.handleConn and compared with reference decoders written from the documented layouts; non-trivial = the input passes the length checks of at least one layout (reaches the type lookup) and is not an unmutated valid stream; distinct = distinct case",
		Gen:  c23GenHostile, Exec: c23ExecHostile,
	})
}

// ---- allocation bound of the metadata decoder ------------------------------------
//
// FINDING (fingerprint "metadata-count-presize-alloc", listed in known_findings.json):
// (*Metadata).UnmarshalBinary pre-sizes its map from the unvalidated 16-bit header
// count (internal/net/metadata.go:149-151, `m.headers = make(map[string]string, count)`).
// The 10-byte section ff ff 00 00 00 00 00 00 00 00 (a 34-byte frame) allocates
// 5 248 176 bytes and is then rejected with ErrInvalidMetadata; with a frame limit
// configured below ~5 MiB that is an allocation beyond the frame limit for a frame of
// 34 bytes (amplification ~150 000x). Proposed fix, behaviour-preserving for every
// section that decodes today (an impossible count fails a few lines later anyway):
//
//	count := int(binary.BigEndian.Uint16(data[pos:]))
//	pos += 2
//	if count > (len(data)-10)/4 { // each header needs >= 4 bytes, plus the 10 fixed bytes
//		return ErrInvalidMetadata
//	}
//	m.headers = make(map[string]string, count)
//
// The oracle below (bytes allocated <= 64 x input length + 64 KiB) reports the shape
// "declared count > (len-10)/4" under that fingerprint and every other excess as
// "metadata-alloc-beyond-frame" (not listed, not suppressed).

type c23AllocCase struct {
	Headers []c23Header `json:"headers"`
	Count   int         `json:"count"`  // -1 keep; otherwise the header-count field is overwritten
	Cut     int         `json:"cut"`    // -1 keep; otherwise the section is truncated to Cut % len bytes
	Raw     []byte      `json:"raw"`    // when non-empty: the section is these bytes
	Framed  bool        `json:"framed"` // decode through UnmarshalBinaryWithMetadata instead of Metadata.UnmarshalBinary
}

func c23GenAlloc(t *rapid.T) c23AllocCase {
	c := c23AllocCase{Count: -1, Cut: -1}
	if c23Chance(t, "raw_kind", 1, 6) {
		c.Raw = rapid.SliceOfN(rapid.Byte(), 0, 64).Draw(t, "raw")
		if len(c.Raw) >= 2 && rapid.Bool().Draw(t, "raw_count") {
			binary.BigEndian.PutUint16(c.Raw, rapid.SampledFrom([]uint16{0, 1, 2, 255, 256, 4095, 0x7fff, 0xfffe, 0xffff}).Draw(t, "raw_count_v"))
		}
	} else {
		n := rapid.IntRange(0, 12).Draw(t, "nheaders")
		for i := 0; i < n; i++ {
			c.Headers = append(c.Headers, c23Header{K: c23GenStr(t, "hk", false), V: c23GenStr(t, "hv", false)})
		}
		if c23Chance(t, "count_kind", 2, 3) {
			c.Count = []int{0, 1, n + 1, n + 2, 2 * n, 255, 256, 1024, 4096, 0x7fff, 0xfffe, 0xffff, n - 1, n, 64, 16}[c23Uniform(t, "count", 16)]
			if c.Count < 0 {
				c.Count = 0
			}
		}
		if c23Chance(t, "cut_kind", 1, 4) {
			c.Cut = rapid.IntRange(0, 1<<16).Draw(t, "cut")
		}
	}
	c.Framed = rapid.Bool().Draw(t, "framed")
	return c
}

func c23AllocDelta(f func(), runs int) uint64 {
	var a, b runtime.MemStats
	best := ^uint64(0)
	for i := 0; i < runs; i++ {
		runtime.ReadMemStats(&a)
		f()
		runtime.ReadMemStats(&b)
		d := b.TotalAlloc - a.TotalAlloc
		if d < best {
			best = d
		}
		if best <= 4096 {
			break
		}
	}
	return best
}

func c23ExecAlloc(x *vfkit.X, c c23AllocCase) {
	var section []byte
	if len(c.Raw) > 0 {
		section = append([]byte(nil), c.Raw...)
		x.Class("raw_section")
	} else {
		md := NewMetadata()
		for _, h := range c.Headers {
			md.Set(h.K.str(), h.V.str())
		}
		section = md.MarshalBinary()
		if c.Count >= 0 {
			binary.BigEndian.PutUint16(section, uint16(c.Count))
		}
		if c.Cut >= 0 && len(section) > 0 {
			section = section[:c.Cut%len(section)]
		}
	}
	declared := 0
	if len(section) >= 2 {
		declared = int(binary.BigEndian.Uint16(section))
	}
	// the largest number of headers the section can physically hold: 4 bytes each plus the 10 fixed bytes
	capacity := 0
	if len(section) >= 10 {
		capacity = (len(section) - 10) / 4
	}
	input := section
	var dec func()
	if c.Framed {
		name := "internalpb.Ack"
		frame := binary.BigEndian.AppendUint32(nil, uint32(12+len(name)+len(section)))
		frame = binary.BigEndian.AppendUint32(frame, uint32(len(name)))
		frame = binary.BigEndian.AppendUint32(frame, uint32(len(section)))
		frame = append(frame, name...)
		frame = append(frame, section...)
		input = frame
		ser := NewProtoSerializer()
		dec = func() { _, _, _, _ = ser.UnmarshalBinaryWithMetadata(frame) }
		x.Class("framed")
	} else {
		dec = func() { md := &Metadata{}; _ = md.UnmarshalBinary(section) }
	}
	var delta uint64
	runs := 3
	if declared > capacity && x.Known("metadata-count-presize-alloc") {
		runs = 1 // listed finding: one measurement is enough to keep reporting it
	}
	c23Guard(x, "metadata-decoder-panic", "metadata decode", func() { delta = c23AllocDelta(dec, runs) })
	// A well-formed section of n bytes holds at most n/4 headers; a Go map costs well under
	// 100 bytes per small entry and the strings are copies of the input, so 64 bytes per input
	// byte plus a constant is a generous bound for "allocates in proportion to the frame".
	bound := uint64(64*len(input) + 64*1024)
	if declared > capacity {
		x.Class("count_exceeds_capacity")
		x.NonTrivial()
	}
	if declared > 0 && declared <= capacity {
		x.Class("count_consistent")
		x.NonTrivial()
	}
	if delta > bound {
		fp := "metadata-alloc-beyond-frame"
		if declared > capacity {
			fp = "metadata-count-presize-alloc"
		}
		x.Failf(fp, "decoding a %d-byte input (metadata section %d bytes, declared header count %d, room for at most %d) allocated %d bytes (bound %d)", len(input), len(section), declared, capacity, delta, bound)
	}
}

func TestVF_C23_mdalloc(t *testing.T) {
	vfkit.Run(t, vfkit.Spec[c23AllocCase]{
		ID: "C23", Unit: "mdalloc",
		Rule: "cases = metadata section (marshalled 0..12 headers with the count field overwritten by boundary values and/or truncated, or raw bytes), decoded directly or inside a metadata-format frame; heap bytes allocated by the decode (runtime.MemStats.TotalAlloc delta, minimum of up to 3 runs) must stay below 64 bytes per input byte + 64 KiB; non-trivial = declared header count > 0; distinct = distinct case",
		Gen:  c23GenAlloc, Exec: c23ExecAlloc,
	})
}

//go:build verif

package net

import (
	"bytes"
	"context"
	"encoding/binary"
	"errors"
	"fmt"
	"io"
	"testing"
	"time"

	"google.golang.org/protobuf/proto"
	"pgregory.net/rapid"

	"github.com/tochemey/goakt/v4/internal/vfkit"
)

// ---- case ----------------------------------------------------------------------

// c23Str is a header key or value: Lit followed by Pad copies of PadByte (keeps
// 64 KiB strings out of the case JSON).
type c23Str struct {
	Lit     []byte `json:"lit,omitempty"`
	Pad     int    `json:"pad,omitempty"`
	PadByte byte   `json:"pad_byte,omitempty"`
}

func (s c23Str) str() string {
	if s.Pad == 0 {
		return string(s.Lit)
	}
	return string(s.Lit) + string(bytes.Repeat([]byte{s.PadByte}, s.Pad))
}

type c23Header struct {
	K c23Str `json:"k"`
	V c23Str `json:"v"`
}

const (
	c23EncLegacy  = 0 // MarshalBinary: no metadata section
	c23EncMetaNil = 1 // MarshalBinaryWithMetadata(md = nil): metaLen 0
	c23EncMeta    = 2 // MarshalBinaryWithMetadata(md)
	c23EncClient  = 3 // Client.marshalProtoWithContext with md in the context
)

type c23Frame struct {
	Msg      c23Msg      `json:"msg"`
	Enc      int         `json:"enc"`
	Headers  []c23Header `json:"headers,omitempty"`
	Bulk     int         `json:"bulk,omitempty"`     // additional distinct headers "\x01b<i>" = "<i>"
	Deadline int         `json:"deadline,omitempty"` // 0 none, 1 = now + OffsetNs
	OffsetNs int64       `json:"offset_ns,omitempty"`
	Pooled   bool        `json:"pooled,omitempty"`   // marshal into a pooled buffer (as Client/ProtoServer do)
	NoReply  bool        `json:"no_reply,omitempty"` // server handler returns no response for this frame
}

type c23RTCase struct {
	Frames     []c23Frame `json:"frames"`
	Chunks     []int      `json:"chunks"`      // Read sizes served by the transport, cycled
	MaxKind    int        `json:"max_kind"`    // 0: exactly the largest frame, 1: largest+1, 2: 16 MiB default, 3: 4 GiB-1
	ReadPooled bool       `json:"read_pooled"` // readProtoFrame with / without a frame pool
}

var c23LenBias = []int{0, 1, 2, 255, 256, 65534, 65535}

func c23GenStr(t *rapid.T, label string, big bool) c23Str {
	var s c23Str
	switch rapid.IntRange(0, 9).Draw(t, label+"_k") {
	case 0:
		// empty
	case 1, 2, 3:
		s.Lit = []byte(rapid.StringMatching(`[A-Za-z][A-Za-z0-9-]{0,20}`).Draw(t, label+"_tok"))
	case 4:
		s.Lit = []byte(rapid.SampledFrom([]string{"traceparent", "tracestate", "authorization", "Content-Type", "x-request-id", "00-4bf92f3577b34da6a3ce929d0e0e4736-00f067aa0ba902b7-01"}).Draw(t, label+"_wk"))
	case 5:
		s.Lit = rapid.SliceOfN(rapid.Byte(), 0, 24).Draw(t, label+"_raw")
	case 6:
		s.Lit = append([]byte(nil), rapid.SampledFrom(c23HostileBytes).Draw(t, label+"_host")...)
	case 7:
		s.Lit = []byte(rapid.String().Draw(t, label+"_uni"))
		if len(s.Lit) > 200 {
			s.Lit = s.Lit[:200]
		}
	default:
		n := rapid.SampledFrom(c23LenBias).Draw(t, label+"_len")
		if n > 256 && !big {
			n = 256
		}
		s.PadByte = rapid.SampledFrom([]byte{'a', 'x', 0, 0xff, ' '}).Draw(t, label+"_pb")
		if n > 0 && rapid.Bool().Draw(t, label+"_pfx") {
			s.Lit = []byte{rapid.Byte().Draw(t, label+"_p0")}
			n--
		}
		s.Pad = n
	}
	return s
}

func c23GenFrame(t *rapid.T, lim c23Limits, allowBig bool) c23Frame {
	var f c23Frame
	f.Msg = c23GenMsg(t, lim, allowBig)
	f.Enc = []int{c23EncLegacy, c23EncLegacy, c23EncMetaNil, c23EncMeta, c23EncMeta, c23EncMeta, c23EncClient, c23EncLegacy}[c23Uniform(t, "enc", 8)]
	f.Pooled = rapid.Bool().Draw(t, "pooled")
	f.NoReply = rapid.IntRange(0, 4).Draw(t, "no_reply") == 0
	if f.Enc >= c23EncMeta {
		n := rapid.SampledFrom([]int{0, 1, 1, 2, 3, 5, 8, 40}).Draw(t, "nheaders")
		if n == 40 {
			n = rapid.IntRange(9, 40).Draw(t, "nheaders_many")
		}
		bigBudget := 0
		if allowBig && c23Chance(t, "big_headers", 1, 16) {
			bigBudget = 3
		}
		for i := 0; i < n; i++ {
			big := bigBudget > 0
			h := c23Header{K: c23GenStr(t, "hk", big), V: c23GenStr(t, "hv", big)}
			if h.K.Pad > 256 || h.V.Pad > 256 {
				bigBudget--
			}
			f.Headers = append(f.Headers, h)
		}
		if allowBig {
			switch c23Uniform(t, "bulk_kind", 256) {
			case 255, 254, 253:
				f.Bulk = rapid.SampledFrom([]int{255, 256, 257, 1000}).Draw(t, "bulk_n")
			case 252:
				f.Bulk = 65535 - len(f.Headers) // exactly the largest encodable header count (when all keys are distinct)
			case 251:
				f.Bulk = 65534 - len(f.Headers)
			}
		}
		switch c23Uniform(t, "deadline_kind", 6) {
		case 0, 1:
			f.Deadline = 0
		default:
			f.Deadline = 1
			unit := rapid.SampledFrom([]int64{1, int64(time.Microsecond), int64(time.Millisecond), int64(time.Second), int64(time.Hour), 24 * 365 * int64(time.Hour)}).Draw(t, "deadline_unit")
			mag := rapid.Int64Range(1, 150).Draw(t, "deadline_mag")
			f.OffsetNs = unit * mag
			if rapid.IntRange(0, 3).Draw(t, "deadline_past") == 0 {
				f.OffsetNs = -f.OffsetNs
			}
		}
	}
	return f
}

func c23GenChunks(t *rapid.T) []int {
	switch c23Uniform(t, "chunk_kind", 5) {
	case 0:
		return []int{1 << 30} // everything at once
	case 1:
		return []int{1}
	case 2:
		return []int{rapid.SampledFrom([]int{2, 3, 4, 5, 7, 8, 11, 12, 13}).Draw(t, "chunk_small")}
	default:
		return rapid.SliceOfN(rapid.SampledFrom([]int{1, 2, 3, 4, 5, 7, 8, 9, 12, 16, 100, 255, 256, 4096, 32768, 65536, 1 << 20}), 1, 8).Draw(t, "chunks")
	}
}

func c23GenRT(t *rapid.T) c23RTCase {
	var c c23RTCase
	k := []int{1, 2, 1, 2, 3, 4, 5, 2}[c23Uniform(t, "nframes", 8)]
	bigLeft := 1 // at most one frame per case may carry very large parts (keeps a case under a few MiB)
	for i := 0; i < k; i++ {
		f := c23GenFrame(t, c23DefaultLimits, bigLeft > 0)
		if f.Msg.BigLen > 0 || f.Bulk > 0 {
			bigLeft--
		}
		for _, h := range f.Headers {
			if h.K.Pad > 256 || h.V.Pad > 256 {
				bigLeft = 0
			}
		}
		c.Frames = append(c.Frames, f)
	}
	c.Chunks = c23GenChunks(t)
	c.MaxKind = []int{0, 0, 1, 2, 2, 3, 0, 1}[c23Uniform(t, "max_kind", 8)]
	c.ReadPooled = rapid.Bool().Draw(t, "read_pooled")
	return c
}

// ---- execution -------------------------------------------------------------------

type c23Sent struct {
	msg      proto.Message
	name     string
	hasMeta  bool // metadata section written (metaLen > 0)
	metaFmt  bool // frame uses the metadata layout
	headers  map[string]string
	deadline int64 // absolute UnixNano handed to SetDeadline; 0 = none
	encT0    int64 // wall clock just before encoding
	off, n   int   // position in the byte stream
}

func c23BuildMD(f c23Frame, now int64) (*Metadata, map[string]string, int64) {
	md := NewMetadata()
	want := map[string]string{}
	for _, h := range f.Headers {
		k, v := h.K.str(), h.V.str()
		md.Set(k, v)
		want[k] = v
	}
	for i := 0; i < f.Bulk && len(want) < 65535; i++ {
		k, v := fmt.Sprintf("\x01b%d", i), fmt.Sprintf("%d", i)
		md.Set(k, v)
		want[k] = v
	}
	var dl int64
	if f.Deadline != 0 {
		dl = now + f.OffsetNs
		md.SetDeadline(time.Unix(0, dl))
	}
	return md, want, dl
}

func c23CheckMD(x *vfkit.X, where string, s *c23Sent, md *Metadata, decT1 int64) {
	if !s.hasMeta {
		if md != nil {
			x.Failf("metadata-out-of-nothing", "%s: frame written without metadata decoded with metadata %v", where, c23HeadersOf(md))
		}
		return
	}
	got := c23HeadersOf(md)
	if !c23MapsEqual(got, s.headers) {
		x.Failf("headers-differ", "%s: %d headers written, %d decoded (maps differ)", where, len(s.headers), len(got))
	}
	if md != nil {
		for k, v := range s.headers {
			if w, ok := md.Get(k); !ok || w != v {
				x.Failf("headers-differ", "%s: Get(%q) = %q,%v after decode, want %q", where, k, w, ok, v)
			}
		}
	}
	var dl time.Time
	var has bool
	if md != nil {
		dl, has = md.GetDeadline()
	}
	if has != (s.deadline != 0) {
		x.Failf("deadline-presence", "%s: deadline set=%v before encode, present=%v after decode", where, s.deadline != 0, has)
	}
	if has {
		// the deadline travels as remaining time: decoded = original + (decode clock - encode clock),
		// and both clock readings lie inside [encT0, decT1].
		d := dl.UnixNano() - s.deadline
		if d < -c23ClockTol || d > (decT1-s.encT0)+c23ClockTol {
			x.Failf("deadline-drift", "%s: decoded deadline differs from the original by %dns; encode..decode took %dns", where, d, decT1-s.encT0)
		}
	}
}

func c23ExecRT(x *vfkit.X, c c23RTCase) {
	ser := NewProtoSerializer()
	pool := NewFramePool()
	client := &Client{serializer: ser, framePool: pool, maxFrameSize: defaultMaxFrameSize}

	// ---- encode all frames into one byte stream ----
	var wire []byte
	var sent []*c23Sent
	largest := 0
	for i, f := range c.Frames {
		msg, badUTF8, err := c23Build(f.Msg)
		if err != nil {
			panic(fmt.Sprintf("c23: cannot rebuild generated message %s: %v", f.Msg.Type, err))
		}
		s := &c23Sent{msg: msg, name: f.Msg.Type}
		var p *FramePool
		if f.Pooled {
			p = pool
		}
		s.encT0 = time.Now().UnixNano()
		var data []byte
		switch f.Enc {
		case c23EncLegacy:
			data, err = ser.MarshalBinaryTo(p, msg)
		case c23EncMetaNil:
			s.metaFmt = true
			data, err = ser.MarshalBinaryWithMetadataTo(p, msg, nil)
		case c23EncMeta:
			s.metaFmt, s.hasMeta = true, true
			var md *Metadata
			md, s.headers, s.deadline = c23BuildMD(f, s.encT0)
			data, err = ser.MarshalBinaryWithMetadataTo(p, msg, md)
		case c23EncClient:
			s.metaFmt, s.hasMeta = true, true
			var md *Metadata
			md, s.headers, s.deadline = c23BuildMD(f, s.encT0)
			data, err = client.marshalProtoWithContext(ContextWithMetadata(context.Background(), md), msg)
			p = pool
		}
		if badUTF8 {
			x.Class("invalid_utf8_message")
			if err == nil {
				// proto3 strings must be valid UTF-8; the library refuses to marshal them
				x.Failf("invalid-utf8-marshalled", "frame %d: %s with an invalid UTF-8 string was marshalled without error", i, s.name)
			}
			if !errors.Is(err, ErrMarshalBinaryFailed) {
				x.Failf("marshal-error-sentinel", "frame %d: marshal failure is not ErrMarshalBinaryFailed: %v", i, err)
			}
			continue
		}
		if err != nil {
			x.Failf("marshal-valid-message-failed", "frame %d: marshalling a valid %s failed: %v", i, s.name, err)
		}
		// documented layout facts shared by both formats
		if len(data) < 8 || int(binary.BigEndian.Uint32(data[0:4])) != len(data) {
			x.Failf("total-length-field", "frame %d: totalLen field %d, frame has %d bytes", i, binary.BigEndian.Uint32(data[0:4]), len(data))
		}
		if f.Enc == c23EncLegacy {
			nl := int(binary.BigEndian.Uint32(data[4:8]))
			if nl != len(s.name) || 8+nl > len(data) || string(data[8:8+nl]) != s.name {
				x.Failf("legacy-layout", "frame %d: legacy frame does not carry nameLen/name at offsets 4/8", i)
			}
		}
		s.off, s.n = len(wire), len(data)
		wire = append(wire, data...)
		if p != nil {
			// the callers return the buffer to the pool right after writing it
			c23Scribble(data)
			p.Put(data)
		}
		if s.n > largest {
			largest = s.n
		}
		sent = append(sent, s)
		switch {
		case s.hasMeta && len(s.headers) > 0:
			x.Class("meta_with_headers")
		case s.hasMeta:
			x.Class("meta_no_headers")
		case s.metaFmt:
			x.Class("meta_format_nil_md")
		default:
			x.Class("legacy_format")
		}
		if s.deadline != 0 {
			x.Class("with_deadline")
		}
		if len(s.headers) >= 255 {
			x.Class("headers>=255")
		}
		if len(s.headers) == 65535 {
			x.Class("headers==65535")
		}
		if s.n >= 65536 {
			x.Class("frame>=64KiB")
		}
		if f.Pooled {
			x.Class("pooled_marshal")
		}
		if len(f.Msg.Wire) == 0 && f.Msg.BigLen == 0 {
			x.Class("empty_payload")
		}
	}
	if len(sent) == 0 {
		x.Class("no_frame_encoded")
		return
	}
	nontrivial := len(sent) >= 2
	for _, s := range sent {
		if len(s.headers) >= 1 {
			nontrivial = true
		}
	}
	if nontrivial {
		x.NonTrivial()
	}
	x.Class(fmt.Sprintf("frames=%d", len(sent)))

	var maxFrame uint32
	switch c.MaxKind {
	case 0:
		maxFrame = uint32(largest)
		x.Class("max==largest_frame")
	case 1:
		maxFrame = uint32(largest) + 1
	case 2:
		maxFrame = defaultMaxFrameSize
	default:
		maxFrame = 1<<32 - 1
	}
	client.maxFrameSize = maxFrame

	// a large stream is not served byte by byte: the transport hands out at least len/2048 bytes per Read
	chunks := c.Chunks
	if floor := len(wire) / 2048; floor > 1 {
		chunks = make([]int, len(c.Chunks))
		for i, v := range c.Chunks {
			if v < floor {
				v = floor + v // keeps the pieces misaligned with the frame structure
			}
			chunks[i] = v
		}
	}

	// ---- client-side read path: frames come back one by one, in order ----
	rd := &c23Reader{data: wire, chunks: chunks}
	var rpool *FramePool
	if c.ReadPooled {
		rpool = pool
	}
	for i, s := range sent {
		frame, err := readProtoFrame(rd, rpool, maxFrame)
		if err != nil {
			x.Failf("read-valid-frame-failed", "frame %d/%d (%d bytes, max %d): readProtoFrame: %v", i, len(sent), s.n, maxFrame, err)
		}
		if !bytes.Equal(frame, wire[s.off:s.off+s.n]) {
			x.Failf("frame-boundary", "frame %d/%d: readProtoFrame returned %d bytes that are not the %d bytes written at offset %d", i, len(sent), len(frame), s.n, s.off)
		}
		where := fmt.Sprintf("frame %d/%d %s", i, len(sent), s.name)

		// decoder matching the encoder
		var msg proto.Message
		var md *Metadata
		var name string
		if s.metaFmt {
			m, d, n, err := ser.UnmarshalBinaryWithMetadata(frame)
			if err != nil {
				x.Failf("decode-valid-meta-frame-failed", "%s: UnmarshalBinaryWithMetadata: %v", where, err)
			}
			msg, md, name = m, d, string(n) // string(n) copies the name out of the frame
			name = string(append([]byte(nil), name...))
		} else {
			m, n, err := ser.UnmarshalBinary(frame)
			if err != nil {
				x.Failf("decode-valid-legacy-frame-failed", "%s: UnmarshalBinary: %v", where, err)
			}
			msg, name = m, string(append([]byte(nil), n...))
			// crossed decoder: the server's fallback relies on exactly this sentinel
			if _, _, _, err := ser.UnmarshalBinaryWithMetadata(frame); err != ErrInvalidMessageLength && len(frame) >= 12 {
				x.Failf("legacy-frame-not-rejected-by-meta-decoder", "%s: UnmarshalBinaryWithMetadata on a legacy frame returned %v, the server falls back only on ErrInvalidMessageLength", where, err)
			}
		}
		// format auto-detection of the client
		cmsg, cmd, cerr := client.unmarshalProtoResponse(frame)
		if cerr != nil {
			x.Failf("client-detect-failed", "%s: unmarshalProtoResponse: %v", where, cerr)
		}
		decT1 := time.Now().UnixNano()

		// the frame buffer goes back to the pool and is overwritten by later traffic:
		// nothing decoded may alias it
		c23Scribble(frame)
		if rpool != nil {
			rpool.Put(frame)
		}

		if name != s.name {
			x.Failf("type-name-differs", "%s: decoded type name %q", where, name)
		}
		if string(proto.MessageName(msg)) != s.name {
			x.Failf("type-name-differs", "%s: decoded message is a %s", where, proto.MessageName(msg))
		}
		if !c23Equal(msg, s.msg) {
			x.Failf("message-differs", "%s: decoded message differs from the encoded one", where)
		}
		c23CheckMD(x, where+" (serializer)", s, md, decT1)
		if !c23Equal(cmsg, s.msg) {
			x.Failf("client-detect-message-differs", "%s: unmarshalProtoResponse decoded a different message", where)
		}
		c23CheckMD(x, where+" (client detection)", s, cmd, decT1)
	}
	if _, err := readProtoFrame(rd, rpool, maxFrame); err != io.EOF {
		x.Failf("stream-end", "after %d frames readProtoFrame returned %v, want io.EOF", len(sent), err)
	}
	if lim := int(maxFrame) - 4; rd.maxReq > lim && rd.maxReq > 4 {
		x.Failf("read-buffer-above-max", "readProtoFrame asked the transport to fill %d bytes, max frame %d", rd.maxReq, maxFrame)
	}

	// ---- server-side read loop (format detection, dispatch by type name, echo) ----
	replyIdx := make([]int, 0, len(sent))
	noReply := map[int]bool{}
	{
		j := 0
		for _, f := range c.Frames {
			if f.Msg.BadUTF8 {
				continue
			}
			if f.NoReply {
				noReply[j] = true
			} else {
				replyIdx = append(replyIdx, j)
			}
			j++
		}
	}
	calls, out, srvMaxReq, pan := c23Serve(wire, chunks, maxFrame, func(i int) bool { return !noReply[i] })
	srvT1 := time.Now().UnixNano()
	if pan != nil {
		x.Failf("server-panic", "ProtoServer.handleConn panicked on valid frames: %v", pan)
	}
	if len(calls) != len(sent) {
		x.Failf("server-dispatch-count", "server dispatched %d of %d valid frames (max frame %d, largest %d)", len(calls), len(sent), maxFrame, largest)
	}
	for i, s := range sent {
		where := fmt.Sprintf("server frame %d/%d %s", i, len(sent), s.name)
		if calls[i].key != c23ExpectedKey(s.name) {
			x.Failf("server-dispatch-key", "%s: dispatched to handler %q", where, calls[i].key)
		}
		if !c23Equal(calls[i].msg, s.msg) {
			x.Failf("server-message-differs", "%s: handler received a different message", where)
		}
		c23CheckMD(x, where, s, calls[i].md, srvT1)
	}
	if lim := int(maxFrame) - 4; srvMaxReq > lim && srvMaxReq > readBufferSize {
		x.Failf("server-read-buffer-above-max", "server asked the transport to fill %d bytes, max frame %d", srvMaxReq, maxFrame)
	}
	// responses (legacy frames) come back in order and decode through the client's detection
	ord := &c23Reader{data: out, chunks: chunks}
	for _, j := range replyIdx {
		frame, err := readProtoFrame(ord, rpool, 1<<32-1)
		if err != nil {
			x.Failf("response-read-failed", "response to frame %d: %v", j, err)
		}
		m, md, err := client.unmarshalProtoResponse(frame)
		if err != nil {
			x.Failf("response-decode-failed", "response to frame %d: %v", j, err)
		}
		c23Scribble(frame)
		if rpool != nil {
			rpool.Put(frame)
		}
		if md != nil || !c23Equal(m, sent[j].msg) {
			x.Failf("response-differs", "response to frame %d (%s) differs from the echoed message (md=%v)", j, sent[j].name, md != nil)
		}
	}
	if _, err := readProtoFrame(ord, rpool, 1<<32-1); err != io.EOF {
		x.Failf("response-stream-end", "after %d responses: %v, want io.EOF", len(replyIdx), err)
	}
}

func TestVF_C23_roundtrip(t *testing.T) {
	vfkit.Run(t, vfkit.Spec[c23RTCase]{
		ID: "C23", Unit: "roundtrip",
		Rule: "cases = 1..5 frames, each an arbitrary message of a registered internalpb/testpb type built through protoreflect (depth<=3, repeated<=4, occasionally one 64KiB..1MiB field or an invalid UTF-8 string), encoded legacy / metadata(nil) / metadata(0..40 headers, lengths biased to 0,1,255,256,65534,65535, up to 65535 headers, deadline none/past/future) / through Client.marshalProtoWithContext, pooled or not, concatenated and read back through a transport returning generated chunk sizes with maxFrameSize in {largest frame, +1, 16MiB, 4GiB-1}; non-trivial = >=2 frames or >=1 header; distinct = distinct case",
		Gen:  c23GenRT, Exec: c23ExecRT,
	})
}

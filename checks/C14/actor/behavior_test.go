//go:build verif

package actor

import (
	"context"
	"errors"
	"fmt"
	"strings"
	"sync/atomic"
	"testing"
	"time"

	"pgregory.net/rapid"

	gerrors "github.com/tochemey/goakt/v4/errors"
	"github.com/tochemey/goakt/v4/internal/vfkit"
	"github.com/tochemey/goakt/v4/log"
)

// ---- C14: behaviour switching follows stack semantics ------------------------
//
// A real actor is driven by a generated script. Every script message carries
// 0..3 behaviour switches which the handler performs through the public
// ReceiveContext API (Become, BecomeStacked, UnBecomeStacked, UnBecome). Every
// handler invocation reports the name of the behaviour that ran it, so each
// message is also a probe. The oracle is a stack model written from the doc
// comments of ReceiveContext.

const (
	c14OpBecome          = 0 // Become(b[arg])
	c14OpBecomeStacked   = 1 // BecomeStacked(b[arg])
	c14OpUnBecomeStacked = 2
	c14OpUnBecome        = 3

	c14ViaTell       = 0 // system Tell (no sender)
	c14ViaAsk        = 1 // system Ask; implies waiting for the reply
	c14ViaSenderTell = 2 // Tell from another actor's PID

	c14FpUnbecome = "unbecome-keeps-stacked-behaviors"
	c14Watchdog   = 20 * time.Second
)

type c14Op struct {
	Kind int `json:"kind"`
	Arg  int `json:"arg"` // behaviour index 1..5 for Become/BecomeStacked
}

type c14Step struct {
	Ops  []c14Op `json:"ops"`
	Via  int     `json:"via"`
	Sync bool    `json:"sync"` // wait for this message to be handled before sending the next one
}

type c14Case struct {
	Steps []c14Step `json:"steps"`
}

func (o c14Op) String() string {
	switch o.Kind {
	case c14OpBecome:
		return fmt.Sprintf("Become(b%d)", o.Arg)
	case c14OpBecomeStacked:
		return fmt.Sprintf("BecomeStacked(b%d)", o.Arg)
	case c14OpUnBecomeStacked:
		return "UnBecomeStacked"
	default:
		return "UnBecome"
	}
}

// c14Msg is the script message. Idx is its position in the script.
type c14Msg struct {
	Idx int
	Ops []c14Op
}

type c14Event struct {
	Idx       int
	HandledBy string // name of the behaviour closure that ran
}

// c14Actor: Receive is the default behaviour "D"; behaviour(i) are closures over
// their name. All behaviours run the same script interpreter.
type c14Actor struct {
	events chan c14Event
	// turn is a sequence lock around script handlers: odd while one runs.
	turn atomic.Uint64
}

func (a *c14Actor) PreStart(*Context) error { return nil }
func (a *c14Actor) PostStop(*Context) error { return nil }
func (a *c14Actor) Receive(ctx *ReceiveContext) {
	a.handle("D", ctx)
}

func (a *c14Actor) behavior(i int) Behavior {
	name := fmt.Sprintf("b%d", i)
	return func(ctx *ReceiveContext) { a.handle(name, ctx) }
}

func (a *c14Actor) handle(name string, ctx *ReceiveContext) {
	m, ok := ctx.Message().(*c14Msg)
	if !ok {
		return // PostStart and other system messages; they never touch the behaviours
	}
	a.turn.Add(1)
	for _, op := range m.Ops {
		switch op.Kind {
		case c14OpBecome:
			ctx.Become(a.behavior(op.Arg))
		case c14OpBecomeStacked:
			ctx.BecomeStacked(a.behavior(op.Arg))
		case c14OpUnBecomeStacked:
			ctx.UnBecomeStacked()
		case c14OpUnBecome:
			ctx.UnBecome()
		}
	}
	a.events <- c14Event{Idx: m.Idx, HandledBy: name}
	ctx.Response(name) // no-op for Tell
	a.turn.Add(1)
}

// c14Deaf reports, without any timing assumption, that the actor has no behaviour
// installed and no script handler is running: only handlers change the behaviour
// stack and a handler can only start when the stack is non-empty, so this state
// is final (every event the actor will ever emit is already in the channel).
func c14Deaf(pid *PID, a *c14Actor) bool {
	t1 := a.turn.Load()
	if t1%2 == 1 {
		return false
	}
	if pid.behaviorStack.Peek() != nil {
		return false
	}
	return a.turn.Load() == t1
}

// ---- generator ---------------------------------------------------------------

// c14GenOp draws one switch. depth is the documented stack depth so far (default
// counts as 1, popping the last one read as "no effect"). Near the bottom pops
// are rare so that scripts do not routinely end by removing the only behaviour;
// higher up pushes and pops are balanced. UnBecome and Become stay frequent so
// that "UnBecome ... UnBecomeStacked" and "Become ... UnBecomeStacked" occur in
// most scripts.
func c14GenOp(t *rapid.T, depth *int) c14Op {
	low := []int{
		c14OpBecomeStacked, c14OpBecomeStacked, c14OpBecomeStacked, c14OpBecomeStacked, c14OpBecomeStacked, c14OpBecomeStacked,
		c14OpUnBecome, c14OpUnBecome,
		c14OpBecome, c14OpBecome,
		c14OpUnBecomeStacked,
	}
	high := []int{
		c14OpBecomeStacked, c14OpBecomeStacked, c14OpBecomeStacked, c14OpBecomeStacked,
		c14OpUnBecomeStacked, c14OpUnBecomeStacked, c14OpUnBecomeStacked, c14OpUnBecomeStacked,
		c14OpUnBecome, c14OpUnBecome,
		c14OpBecome,
	}
	w := high
	if *depth <= 1 {
		w = low
	}
	k := rapid.SampledFrom(w).Draw(t, "kind")
	op := c14Op{Kind: k}
	switch k {
	case c14OpBecome:
		op.Arg = rapid.IntRange(1, 5).Draw(t, "arg")
		*depth = 1
	case c14OpBecomeStacked:
		op.Arg = rapid.IntRange(1, 5).Draw(t, "arg")
		*depth++
	case c14OpUnBecomeStacked:
		if *depth > 1 {
			*depth--
		}
	case c14OpUnBecome:
		*depth = 1
	}
	return op
}

func c14Gen(t *rapid.T) c14Case {
	n := rapid.OneOf(rapid.IntRange(1, 6), rapid.IntRange(7, 25), rapid.IntRange(12, 25)).Draw(t, "steps")
	var c c14Case
	depth := 1
	for i := 0; i < n; i++ {
		var s c14Step
		// 0 ops = pure probe; 1 op most common; 2..3 = several switches in one message
		nops := rapid.SampledFrom([]int{0, 0, 1, 1, 1, 1, 1, 2, 2, 3}).Draw(t, "nops")
		for j := 0; j < nops; j++ {
			s.Ops = append(s.Ops, c14GenOp(t, &depth))
		}
		s.Via = rapid.SampledFrom([]int{c14ViaTell, c14ViaTell, c14ViaAsk, c14ViaSenderTell}).Draw(t, "via")
		s.Sync = rapid.IntRange(0, 2).Draw(t, "sync") == 0
		c.Steps = append(c.Steps, s)
	}
	return c
}

// ---- reference model -----------------------------------------------------------
//
// From the doc comments of ReceiveContext:
//   Become(b)        "replaces the current behavior ... does not maintain a stack"        => [b]
//   BecomeStacked(b) "pushes a new behavior on top of the current one"                    => push
//   UnBecomeStacked  "pops the most recently stacked behavior ... resumes the previous
//                     behavior ... No effect if there is no stack"                        => pop
//   UnBecome         "resets the actor behavior to its default (initial) behavior,
//                     clearing any stacked or currently swapped behavior"                 => [D]
// Popping when only one behaviour is left is under-specified ("no effect" vs. the
// plain stack reading "nothing left, no handler runs"): the model keeps BOTH
// outcomes as candidate states and lets the observations decide. An empty
// candidate predicts that no handler runs for the next message.
//
// When the known finding c14FpUnbecome is listed, UnBecome is modelled as the
// implementation does it (push D on top, keep what is below) so the search goes
// on behind the finding.

type c14Stack []string

func (s c14Stack) key() string { return strings.Join(s, ",") }

type c14Model struct {
	cands       []c14Stack
	unbecomeBug bool // model UnBecome as "push default"
}

func c14NewModel(bug bool) *c14Model {
	return &c14Model{cands: []c14Stack{{"D"}}, unbecomeBug: bug}
}

func (m *c14Model) dedupe() {
	seen := map[string]bool{}
	out := m.cands[:0:0]
	for _, c := range m.cands {
		k := c.key()
		if !seen[k] {
			seen[k] = true
			out = append(out, c)
		}
	}
	m.cands = out
}

// ambiguousPop reports whether some candidate would pop its last behaviour.
func (m *c14Model) ambiguousPop(ops []c14Op) bool {
	tmp := &c14Model{unbecomeBug: m.unbecomeBug}
	for _, c := range m.cands {
		tmp.cands = append(tmp.cands, append(c14Stack(nil), c...))
	}
	for _, op := range ops {
		if op.Kind == c14OpUnBecomeStacked {
			for _, c := range tmp.cands {
				if len(c) <= 1 {
					return true
				}
			}
		}
		tmp.apply(op)
	}
	return false
}

func (m *c14Model) apply(op c14Op) {
	var out []c14Stack
	for _, c := range m.cands {
		switch op.Kind {
		case c14OpBecome:
			out = append(out, c14Stack{fmt.Sprintf("b%d", op.Arg)})
		case c14OpBecomeStacked:
			out = append(out, append(append(c14Stack(nil), c...), fmt.Sprintf("b%d", op.Arg)))
		case c14OpUnBecomeStacked:
			switch {
			case len(c) >= 2:
				out = append(out, append(c14Stack(nil), c[:len(c)-1]...))
			case len(c) == 1:
				out = append(out, c, c14Stack{}) // "no effect" or "popped, nothing left"
			default:
				out = append(out, c)
			}
		case c14OpUnBecome:
			if m.unbecomeBug {
				out = append(out, append(append(c14Stack(nil), c...), "D"))
			} else {
				out = append(out, c14Stack{"D"})
			}
		}
	}
	m.cands = out
	m.dedupe()
}

// observeHandled keeps the candidates whose top is name.
func (m *c14Model) observeHandled(name string) {
	out := m.cands[:0:0]
	for _, c := range m.cands {
		if len(c) > 0 && c[len(c)-1] == name {
			out = append(out, c)
		}
	}
	m.cands = out
}

// observeEmpty keeps the candidates that agree with "stack is empty" == empty.
func (m *c14Model) observeEmpty(empty bool) {
	out := m.cands[:0:0]
	for _, c := range m.cands {
		if (len(c) == 0) == empty {
			out = append(out, c)
		}
	}
	m.cands = out
}

func (m *c14Model) String() string {
	var parts []string
	for _, c := range m.cands {
		parts = append(parts, "["+c.key()+"]")
	}
	return strings.Join(parts, " | ")
}

// ---- system under test -----------------------------------------------------------

var (
	c14Sys    ActorSystem
	c14Sender *PID
	c14Seq    atomic.Int64
)

type c14Nop struct{}

func (c14Nop) PreStart(*Context) error { return nil }
func (c14Nop) PostStop(*Context) error { return nil }
func (c14Nop) Receive(*ReceiveContext) {}

func c14Start(t *testing.T) {
	ctx := context.Background()
	opts := []Option{WithLogger(log.DiscardLogger)}
	// vary the dispatcher's per-turn message budget with the seed: 1 forces a
	// re-schedule after every message, larger values drain bursts in one turn.
	if b := []int{0, 1, 2, 7}[int(uint64(vfkit.Seed())%4)]; b > 0 {
		opts = append(opts, WithThroughputBudget(b))
	}
	sys, err := NewActorSystem("vfC14", opts...)
	if err != nil {
		t.Fatalf("NewActorSystem: %v", err)
	}
	if err := sys.Start(ctx); err != nil {
		t.Fatalf("Start: %v", err)
	}
	t.Cleanup(func() { _ = sys.Stop(context.Background()) })
	snd, err := sys.Spawn(ctx, "c14-sender", c14Nop{}, WithLongLived())
	if err != nil {
		t.Fatalf("spawn sender: %v", err)
	}
	c14Sys, c14Sender = sys, snd
}

// ---- execution ---------------------------------------------------------------------

// c14Classify classifies the EXECUTED prefix of the script (a case ends early when
// the actor legitimately ends up without any behaviour).
func c14Classify(x *vfkit.X, steps []c14Step) {
	switches, seenUnBecome, seenBecome := 0, false, false
	unbecomeThenPop, becomeThenPop, multi := false, false, false
	for _, s := range steps {
		if len(s.Ops) >= 2 {
			multi = true
		}
		for _, op := range s.Ops {
			switches++
			switch op.Kind {
			case c14OpUnBecome:
				seenUnBecome = true
			case c14OpBecome:
				seenBecome = true
			case c14OpUnBecomeStacked:
				if seenUnBecome {
					unbecomeThenPop = true
				}
				if seenBecome {
					becomeThenPop = true
				}
			}
		}
	}
	if unbecomeThenPop {
		x.Class("unbecome_then_unbecomestacked")
	}
	if becomeThenPop {
		x.Class("become_then_unbecomestacked")
	}
	if multi {
		x.Class("several_switches_in_one_message")
	}
	if switches >= 3 && (unbecomeThenPop || becomeThenPop) {
		x.NonTrivial()
	}
	switch {
	case len(steps) >= 15:
		x.Class("executed_15plus_messages")
	case len(steps) >= 5:
		x.Class("executed_5to14_messages")
	default:
		x.Class("executed_under5_messages")
	}
}

type c14AskRes struct {
	resp any
	err  error
}

func c14Exec(x *vfkit.X, c c14Case) {
	executed := 0 // number of script messages whose handling has been observed and judged
	defer func() { c14Classify(x, c.Steps[:executed]) }()
	ctx, cancel := context.WithCancel(context.Background())
	defer cancel() // releases an Ask still waiting when the case ends early
	act := &c14Actor{events: make(chan c14Event, len(c.Steps)+4)}
	name := fmt.Sprintf("c14-%d", c14Seq.Add(1))
	pid, err := c14Sys.Spawn(ctx, name, act, WithLongLived())
	if err != nil {
		panic(fmt.Sprintf("spawn: %v", err))
	}
	defer func() { _ = pid.Shutdown(context.Background()) }()

	known := x.Known(c14FpUnbecome)
	model := c14NewModel(known) // the model that judges
	spec := c14NewModel(false)  // fingerprinting only: which variant explains a mismatch
	bug := c14NewModel(true)
	models := []*c14Model{model, spec, bug}

	fail := func(i int, what string) {
		var hist []string
		for j := 0; j <= i && j < len(c.Steps); j++ {
			hist = append(hist, fmt.Sprintf("%v", c.Steps[j].Ops))
		}
		fp := "behavior-stack-mismatch"
		if !known && len(spec.cands) == 0 && len(bug.cands) > 0 {
			fp = c14FpUnbecome
		}
		x.Failf(fp, "step %d: %s\nscript so far (one [] per message): %s", i, what, strings.Join(hist, " ; "))
	}

	pendingFrom := 0 // first step whose event has not been consumed yet
	// settle consumes the events of steps [pendingFrom, upto] and judges them.
	// It returns false when the case has to be abandoned as inconclusive.
	settle := func(upto int) bool {
		deadline := time.Now().Add(c14Watchdog)
		tick := time.NewTicker(2 * time.Millisecond)
		defer tick.Stop()
		for i := pendingFrom; i <= upto; i++ {
			var ev c14Event
			got := false
			for !got {
				select {
				case ev = <-act.events:
					got = true
				case <-tick.C:
					if c14Deaf(pid, act) {
						select {
						case ev = <-act.events:
							got = true
						default:
							before := model.String()
							for _, m := range models {
								m.observeEmpty(true)
							}
							if len(model.cands) == 0 {
								fail(i, "no behaviour is installed any more: this message and all later ones are never handled; model predicts a handler, candidates: "+before)
							}
							x.Class("popped_last_behavior_actor_deaf")
							return false
						}
					} else if time.Now().After(deadline) {
						x.Class("timeout_inconclusive")
						return false
					}
				}
			}
			if ev.Idx != i {
				x.Failf("behavior-message-order", "expected the event of step %d, got step %d", i, ev.Idx)
			}
			before := model.String()
			for _, m := range models {
				m.observeHandled(ev.HandledBy)
			}
			x.Logf("step %d ops=%v handled by %s; candidates before: %s", i, c.Steps[i].Ops, ev.HandledBy, before)
			if len(model.cands) == 0 {
				fail(i, fmt.Sprintf("message handled by behaviour %q, model predicts one of: %s", ev.HandledBy, before))
			}
			for _, op := range c.Steps[i].Ops {
				for _, m := range models {
					m.apply(op)
				}
			}
		}
		pendingFrom = upto + 1
		executed = pendingFrom
		return true
	}

	for i, s := range c.Steps {
		msg := &c14Msg{Idx: i, Ops: s.Ops}
		// A message whose switches may pop the last behaviour can leave the actor
		// without a handler: its outcome is observed before anything else is sent.
		mustSync := s.Sync || i == len(c.Steps)-1 || c14MayEmpty(models, c.Steps, pendingFrom, i+1)
		var askCh chan c14AskRes
		switch s.Via {
		case c14ViaAsk:
			askCh = make(chan c14AskRes, 1)
			go func() {
				r, e := Ask(ctx, pid, msg, c14Watchdog+10*time.Second)
				askCh <- c14AskRes{r, e}
			}()
			mustSync = true
			x.Class("via_ask")
		case c14ViaSenderTell:
			if err := c14Sender.Tell(ctx, pid, msg); err != nil {
				x.Failf("behavior-tell-error", "step %d: Tell failed: %v", i, err)
			}
		default:
			if err := Tell(ctx, pid, msg); err != nil {
				x.Failf("behavior-tell-error", "step %d: Tell failed: %v", i, err)
			}
		}
		if !mustSync {
			x.Class("burst")
			continue
		}
		handledBy := ""
		if !settle(i) {
			return
		}
		if askCh != nil {
			select {
			case r := <-askCh:
				if r.err != nil {
					if errors.Is(r.err, gerrors.ErrRequestTimeout) {
						x.Class("timeout_inconclusive")
						return
					}
					x.Failf("behavior-ask-error", "step %d: Ask failed: %v", i, r.err)
				}
				handledBy, _ = r.resp.(string)
				// the reply names the behaviour that produced it; the event of the same
				// message was already matched against the model in settle
				if len(handledBy) == 0 {
					x.Failf("behavior-ask-reply-mismatch", "step %d: Ask answered with %v", i, r.resp)
				}
			case <-time.After(c14Watchdog):
				x.Class("timeout_inconclusive")
				return
			}
		}
		// message boundary, nothing in flight: is a behaviour installed at all?
		empty := pid.behaviorStack.Peek() == nil
		before := model.String()
		for _, m := range models {
			m.observeEmpty(empty)
		}
		if len(model.cands) == 0 {
			if empty {
				fail(i, "no behaviour is installed after this message (the actor will never handle a message again); model: "+before)
			}
			fail(i, "a behaviour is still installed after this message; model says the stack is empty: "+before)
		}
		if empty {
			// permitted outcome of popping the last behaviour; the actor is deaf from here on
			x.Class("popped_last_behavior_actor_deaf")
			return
		}
	}
}

// c14MayEmpty reports whether, after applying the ops of steps [from, to) to the
// candidates of any model, the ops of some step in that range pop a last behaviour.
func c14MayEmpty(models []*c14Model, steps []c14Step, from, to int) bool {
	for _, m := range models {
		tmp := &c14Model{unbecomeBug: m.unbecomeBug}
		for _, c := range m.cands {
			tmp.cands = append(tmp.cands, append(c14Stack(nil), c...))
		}
		for i := from; i < to && i < len(steps); i++ {
			if tmp.ambiguousPop(steps[i].Ops) {
				return true
			}
			for _, op := range steps[i].Ops {
				tmp.apply(op)
			}
		}
	}
	return false
}

func TestVF_C14_stack(t *testing.T) {
	c14Start(t)
	vfkit.Run(t, vfkit.Spec[c14Case]{
		ID: "C14", Unit: "stack",
		Rule: "cases = scripts of 1..25 messages, each carrying 0..3 of {Become(b1..b5), BecomeStacked(b1..b5), UnBecomeStacked, UnBecome}, sent by Tell/Ask/actor-Tell to a fresh real actor, in bursts or one by one; every message reports the behaviour that handled it; non-trivial = the executed part of the script (up to the point where the actor is left without any behaviour, if ever) has >=3 switches with an UnBecomeStacked after an earlier UnBecome or Become; distinct = distinct scripts",
		Gen:  c14Gen, Exec: c14Exec,
		ReplayReps: 3,
	})
}

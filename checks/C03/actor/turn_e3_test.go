//go:build verif

package actor

import (
	"testing"

	"github.com/tochemey/goakt/v4/internal/vfkit"
	"github.com/tochemey/goakt/v4/internal/vfsched"
)

// C03 (component level, engine E3): for every FIFO mailbox kind, the messages one producer
// sends to one actor are handled in send order, whatever other producers do.
func c03Exec(x *vfkit.X, c vfTurnCase) {
	res := vfTurnExec(x, c)
	for _, th := range res.Sched.Threads() {
		if th.Panic != nil {
			x.Failf("turn:panic", "thread %s panicked: %v\n%s", th.Name, th.Panic, th.Stack)
		}
	}
	x.Class("kind_" + c.Kind)
	if res.Sched.Preempts > 0 {
		x.Class("preempted")
	}
	multi := map[[2]int]int{}
	for _, m := range res.Sent {
		multi[[2]int{m.Actor, m.Producer}]++
	}
	pairs := 0
	for _, n := range multi {
		if n >= 2 {
			pairs++
		}
	}
	if pairs > 0 && len(c.Producers) >= 2 && res.Sched.Preempts > 0 {
		x.NonTrivial()
	}
	if res.Outcome == vfsched.StepBudget {
		x.Class("inconclusive_step_budget")
	}
	last := map[[2]int]int{}
	for _, e := range res.Events {
		if e.Kind != "enter" {
			continue
		}
		k := [2]int{e.Actor, e.Producer}
		if prev, ok := last[k]; ok && e.Seq <= prev {
			x.Failf("turn:per-sender-order-violated:"+c.Kind, "actor %d handled message seq %d of producer %d after seq %d (mailbox %s)", e.Actor, e.Seq, e.Producer, prev, c.Kind)
		}
		last[k] = e.Seq
	}
}

func TestVF_C03_turn(t *testing.T) {
	vfkit.Run(t, vfkit.Spec[vfTurnCase]{
		ID: "C03", Unit: "turn",
		Rule: "cases as C01/turn restricted to the five FIFO mailbox kinds (unbounded, fair, segmented with segmentSize=4, non-blocking bounded, bounded); non-trivial = >=2 producers, one producer sends >=2 messages to one actor and >=1 forced pre-emption; distinct = distinct (program, schedule)",
		Gen:  vfTurnGen(vfTurnFIFOKinds), Exec: c03Exec,
	})
}

//go:build verif

package actor

import (
	"context"
	"errors"
	"fmt"
	"runtime"
	"sort"
	"strings"
	"sync"
	"sync/atomic"
	"testing"
	"time"

	"pgregory.net/rapid"

	gerrors "github.com/tochemey/goakt/v4/errors"
	"github.com/tochemey/goakt/v4/internal/vfkit"
	"github.com/tochemey/goakt/v4/internal/vfsched"
	"github.com/tochemey/goakt/v4/log"
	"github.com/tochemey/goakt/v4/reentrancy"
)

// ---------------------------------------------------------------------------
// C31: grain activations are ordered and single-threaded.
//
// One real ActorSystem per case. 1..3 grain identities of one instrumented
// kind; 1..3 sender goroutines run generated programs of Tell / Ask /
// PoisonPill sends with gaps placed around the passivation deadline; handlers
// last 0, 1 ms or 2 x deactivateAfter; optionally system.Stop runs at a
// generated instant. Every hook of every grain instance appends a record
// (logical timestamp, identity, activation number, event) to the per-case
// history; the verdict is a set of invariants over that history and over what
// the sending APIs returned. Nothing is decided from elapsed wall time.
// ---------------------------------------------------------------------------

type c31Op struct {
	GapMs      int    `json:"gap_ms"`      // pause before the send
	Ident      int    `json:"ident"`       // target identity
	Kind       string `json:"kind"`        // tell | ask | poison
	HandleMs   int    `json:"handle_ms"`   // how long OnReceive takes for this message
	ViaOf      bool   `json:"via_of"`      // resolve the identity again with GrainOf (same options) before sending
	SelfPoison bool   `json:"self_poison"` // the handler starts an explicit deactivation of its own grain
}

type c31Case struct {
	DeactMs    int       `json:"deact_ms"`    // WithGrainDeactivateAfter
	Reentrant  bool      `json:"reentrant"`   // WithGrainReentrancy(AllowAll)
	Idents     int       `json:"idents"`      // number of identities
	ActMs      int       `json:"act_ms"`      // duration of OnActivate
	DeaMs      int       `json:"dea_ms"`      // duration of OnDeactivate
	Threads    [][]c31Op `json:"threads"`     // one program per sender goroutine
	StopAtMs   int       `json:"stop_at_ms"`  // system.Stop at this instant; -1 = after the senders finished
	NoiseSeed  uint64    `json:"noise_seed"`  // E4 schedule noise
	NoiseProbK int       `json:"noise_probk"` // probability per yield point, in 1/1000
	NoiseSleep int       `json:"noise_sleep"` // max sleep per noisy yield, microseconds
}

func c31Gen(t *rapid.T) c31Case {
	var c c31Case
	ds := []int{40, 80, 150}
	if vfkit.Thorough() {
		ds = []int{40, 80, 150, 300}
	}
	c.DeactMs = rapid.SampledFrom(ds).Draw(t, "deact_ms")
	c.Reentrant = rapid.Bool().Draw(t, "reentrant")
	c.Idents = rapid.IntRange(1, 3).Draw(t, "idents")
	c.ActMs = rapid.SampledFrom([]int{0, 0, 1, 5}).Draw(t, "act_ms")
	c.DeaMs = rapid.SampledFrom([]int{0, 0, 1, 5, 20}).Draw(t, "dea_ms")
	nThreads := rapid.IntRange(1, 3).Draw(t, "threads")
	long := 0
	total := 0
	for i := 0; i < nThreads; i++ {
		n := rapid.IntRange(1, 6).Draw(t, "ops")
		var ops []c31Op
		sum := 0
		for j := 0; j < n; j++ {
			var op c31Op
			pct := rapid.SampledFrom([]int{0, 0, 0, 2, 10, 50, 75, 90, 100, 110, 125, 150, 200}).Draw(t, "gap_pct")
			op.GapMs = c.DeactMs * pct / 100
			op.Ident = rapid.IntRange(0, c.Idents-1).Draw(t, "ident")
			op.Kind = rapid.SampledFrom([]string{"tell", "tell", "tell", "ask", "ask", "ask", "poison"}).Draw(t, "kind")
			if op.Kind != "poison" {
				h := rapid.SampledFrom([]int{0, 0, 0, 1, 1, 2}).Draw(t, "handle")
				switch {
				case h == 2 && long < 2:
					op.HandleMs = 2 * c.DeactMs
					long++
				case h == 2:
					op.HandleMs = 1
				default:
					op.HandleMs = h
				}
				op.SelfPoison = rapid.IntRange(0, 11).Draw(t, "self_poison") == 0
			}
			op.ViaOf = rapid.IntRange(0, 4).Draw(t, "via_of") < 2
			sum += op.GapMs + op.HandleMs
			ops = append(ops, op)
		}
		if sum > total {
			total = sum
		}
		c.Threads = append(c.Threads, ops)
	}
	// "busy grain" shape (1 case in 3): the first sender keeps identity 0 inside a
	// handler of 2 x deactivateAfter from the start, and every other sender opens
	// with a send to the same identity that lands while that handler runs - before
	// or after the passivation deadline that expires inside it
	if rapid.IntRange(0, 2).Draw(t, "busy_shape") == 0 {
		first := &c.Threads[0][0]
		first.GapMs, first.Ident, first.HandleMs, first.SelfPoison = 0, 0, 2*c.DeactMs, false
		if first.Kind == "poison" {
			first.Kind = "tell"
		}
		for i := 1; i < len(c.Threads); i++ {
			op := &c.Threads[i][0]
			op.Ident = 0
			op.GapMs = c.DeactMs * rapid.SampledFrom([]int{10, 50, 90, 110, 150, 190}).Draw(t, "busy_gap_pct") / 100
			if rapid.IntRange(0, 9).Draw(t, "busy_poison") < 4 {
				op.Kind, op.HandleMs, op.SelfPoison = "poison", 0, false
			}
		}
		if extra := 2 * c.DeactMs; extra > total {
			total = extra
		}
	}
	// "slow deactivation" shape (1 case in 4): OnDeactivate lasts 30/60 ms and the
	// other senders' first sends to identity 0 land while that hook is running,
	// for the two on-turn paths: an explicit PoisonPill, or (reentrant grain) the
	// passivation pill that fires deactivateAfter after the opening Ask
	if rapid.IntRange(0, 3).Draw(t, "slow_deact_shape") == 0 {
		c.DeaMs = rapid.SampledFrom([]int{30, 60}).Draw(t, "slow_dea_ms")
		if len(c.Threads) == 1 {
			c.Threads = append(c.Threads, []c31Op{{Kind: "ask"}})
		}
		first := &c.Threads[0][0]
		first.GapMs, first.Ident, first.HandleMs, first.SelfPoison = 0, 0, 0, false
		base := 0
		if rapid.Bool().Draw(t, "slow_via_passivation") {
			c.Reentrant = true
			first.Kind = "ask"
			base = c.DeactMs
		} else {
			first.Kind = "poison"
		}
		for i := 1; i < len(c.Threads); i++ {
			op := &c.Threads[i][0]
			op.Ident, op.SelfPoison, op.HandleMs = 0, false, 0
			if op.Kind == "poison" {
				op.Kind = "tell"
			}
			op.GapMs = base + c.DeaMs*rapid.SampledFrom([]int{10, 30, 50, 70, 90}).Draw(t, "slow_gap_pct")/100
		}
		if extra := base + 2*c.DeaMs; extra > total {
			total = extra
		}
	}
	c.StopAtMs = -1
	if rapid.IntRange(0, 9).Draw(t, "has_stop") < 3 {
		c.StopAtMs = rapid.IntRange(0, total+c.DeactMs).Draw(t, "stop_at_ms")
	}
	c.NoiseSeed = rapid.Uint64().Draw(t, "noise_seed")
	c.NoiseProbK = rapid.SampledFrom([]int{0, 10, 50, 200}).Draw(t, "noise_probk")
	c.NoiseSleep = rapid.SampledFrom([]int{0, 50, 300}).Draw(t, "noise_sleep")
	return c
}

// ---- history ---------------------------------------------------------------

type c31Event struct {
	Seq   int64
	Kind  string // act_enter act_exit recv_enter recv_exit deact_enter deact_exit send_start send_end stop_start stop_end
	Ident string
	Act   int64
	Msg   int
	Gid   string
	Note  string
	Inst  int64 // Go instance of the grain (hook events only)
}

type c31World struct {
	mu      sync.Mutex
	seq     int64
	events  []c31Event
	actSeq  atomic.Int64
	instSeq atomic.Int64
	actDur  time.Duration
	deaDur  time.Duration
	sys     ActorSystem
	bg      sync.WaitGroup // explicit deactivations started by handlers
}

func (w *c31World) log(kind, ident string, act int64, msg int, note string) int64 {
	return w.logInst(kind, ident, act, msg, note, 0)
}

func (w *c31World) logInst(kind, ident string, act int64, msg int, note string, inst int64) int64 {
	gid := c31Gid()
	w.mu.Lock()
	w.seq++
	s := w.seq
	w.events = append(w.events, c31Event{Seq: s, Kind: kind, Ident: ident, Act: act, Msg: msg, Gid: gid, Note: note, Inst: inst})
	w.mu.Unlock()
	return s
}

func c31Gid() string {
	var buf [40]byte
	n := runtime.Stack(buf[:], false)
	f := strings.Fields(string(buf[:n]))
	if len(f) >= 2 {
		return f[1]
	}
	return "?"
}

// c31Cause names the framework path that called OnDeactivate.
func c31Cause() string {
	pcs := make([]uintptr, 48)
	n := runtime.Callers(2, pcs)
	frames := runtime.CallersFrames(pcs[:n])
	for {
		fr, more := frames.Next()
		switch {
		case strings.HasSuffix(fr.Function, ".handlePoisonPill"):
			return "poison-pill"
		case strings.HasSuffix(fr.Function, ".handlePassivationPill"):
			return "passivation-on-turn"
		case strings.HasSuffix(fr.Function, ".passivationTry"):
			return "passivation-off-turn"
		case strings.HasSuffix(fr.Function, ".finalizeGrainActivation"):
			return "activation-rollback"
		}
		if !more {
			return "other"
		}
	}
}

var c31Cur atomic.Pointer[c31World]

type c31Msg struct {
	ID         int
	Ask        bool
	HandleMs   int
	SelfPoison bool
}

type c31Reply struct{ Act int64 }

// c31Grain is instantiated by the framework as a zero value for every activation
// of a not-yet-resident identity.
type c31Grain struct {
	inst  atomic.Int64 // identity of this Go object within the case
	act   atomic.Int64
	world atomic.Pointer[c31World]
	name  atomic.Pointer[string]
}

func (g *c31Grain) ident() string {
	if p := g.name.Load(); p != nil {
		return *p
	}
	return "?"
}

func (g *c31Grain) OnActivate(_ context.Context, props *GrainProps) error {
	w := c31Cur.Load()
	if w == nil {
		return nil
	}
	name := props.Identity().Name()
	g.world.Store(w)
	g.name.Store(&name)
	if g.inst.Load() == 0 {
		g.inst.CompareAndSwap(0, w.instSeq.Add(1))
	}
	inst := g.inst.Load()
	a := w.actSeq.Add(1)
	prev := g.act.Swap(a)
	note := ""
	if prev != 0 {
		note = fmt.Sprintf("instance reused, previous activation %d", prev)
	}
	w.logInst("act_enter", name, a, int(prev), note, inst)
	if w.actDur > 0 {
		time.Sleep(w.actDur)
	}
	w.logInst("act_exit", name, a, 0, "", inst)
	return nil
}

func (g *c31Grain) OnReceive(ctx *GrainContext) {
	w := g.world.Load()
	if w == nil {
		w = c31Cur.Load()
	}
	m, ok := ctx.Message().(*c31Msg)
	if !ok {
		ctx.Unhandled()
		return
	}
	if w == nil {
		ctx.NoErr()
		return
	}
	a := g.act.Load()
	name := g.ident()
	if a == 0 {
		name = ctx.Self().Name()
	}
	w.log("recv_enter", name, a, m.ID, "")
	if m.HandleMs > 0 {
		time.Sleep(time.Duration(m.HandleMs) * time.Millisecond)
	}
	if m.SelfPoison {
		// an explicit deactivation requested by the grain itself: TellGrain blocks
		// until the pill is handled, so it cannot be called on the grain's own turn
		self, sys := ctx.Self(), w.sys
		w.bg.Add(1)
		go func() {
			defer w.bg.Done()
			s := w.log("send_start", self.Name(), 0, -m.ID, "poison(self)")
			err := sys.TellGrain(context.Background(), self, new(PoisonPill))
			w.log("send_end", self.Name(), 0, -m.ID, fmt.Sprintf("start=%d err=%v", s, err))
		}()
	}
	w.log("recv_exit", name, a, m.ID, "")
	if m.Ask {
		ctx.Response(&c31Reply{Act: a})
	} else {
		ctx.NoErr()
	}
}

func (g *c31Grain) OnDeactivate(context.Context, *GrainProps) error {
	w := g.world.Load()
	if w == nil {
		return nil
	}
	a := g.act.Load()
	inst := g.inst.Load()
	w.logInst("deact_enter", g.ident(), a, 0, c31Cause(), inst)
	if w.deaDur > 0 {
		time.Sleep(w.deaDur)
	}
	// the activation number is the one read at entry: a concurrent re-activation
	// of this instance must not re-label the end of this hook
	w.logInst("deact_exit", g.ident(), a, 0, "", inst)
	return nil
}

// ---- execution -----------------------------------------------------------------

type c31Send struct {
	viaOf    bool
	msg      int
	ident    string
	kind     string
	start    int64
	end      int64
	err      error
	replyAct int64
}

var c31SysSeq atomic.Int64

type c31Viol struct{ fp, msg string }

func c31Exec(x *vfkit.X, c c31Case) {
	ctx := context.Background()
	w := &c31World{actDur: time.Duration(c.ActMs) * time.Millisecond, deaDur: time.Duration(c.DeaMs) * time.Millisecond}
	c31Cur.Store(w)
	defer c31Cur.Store(nil)

	// classes and non-triviality come from the generated shape
	nontrivial := false
	for _, ops := range c.Threads {
		for _, op := range ops {
			if op.HandleMs > c.DeactMs {
				x.Class("handler_longer_than_deactivate_after")
				nontrivial = true
			}
			if op.GapMs*4 >= c.DeactMs*3 && op.GapMs*4 <= c.DeactMs*5 {
				x.Class("send_near_passivation_deadline")
				nontrivial = true
			}
			if op.Kind == "poison" || op.SelfPoison {
				x.Class("explicit_deactivation")
			}
		}
	}
	if nontrivial {
		x.NonTrivial()
	}
	if c.Reentrant {
		x.Class("reentrant")
	} else {
		x.Class("non_reentrant")
	}
	if c.StopAtMs >= 0 {
		x.Class("stop_at_generated_point")
	}
	if c.NoiseProbK > 0 {
		x.Class("noise_on")
	}

	sysIface, err := NewActorSystem(fmt.Sprintf("c31sys%d", c31SysSeq.Add(1)), WithLogger(log.DiscardLogger), WithShutdownTimeout(30*time.Second))
	if err != nil {
		x.Failf("harness-system", "NewActorSystem: %v", err)
	}
	if err := sysIface.Start(ctx); err != nil {
		x.Failf("harness-system", "Start: %v", err)
	}
	sys := sysIface
	w.sys = sys
	var stopOnce sync.Once
	var stopErr error
	stop := func() {
		stopOnce.Do(func() {
			w.log("stop_start", "", 0, 0, "")
			stopErr = sys.Stop(ctx)
			w.log("stop_end", "", 0, 0, fmt.Sprint(stopErr))
		})
	}
	defer stop()

	opts := []GrainOption{WithGrainDeactivateAfter(time.Duration(c.DeactMs) * time.Millisecond)}
	if c.Reentrant {
		opts = append(opts, WithGrainReentrancy(reentrancy.New(reentrancy.WithMode(reentrancy.AllowAll))))
	}
	names := make([]string, c.Idents)
	idents := make([]*GrainIdentity, c.Idents)
	for i := range idents {
		names[i] = fmt.Sprintf("g%d", i)
		id, err := GrainOf[*c31Grain](ctx, sys, names[i], opts...)
		if err != nil {
			x.Failf("first-activation-failed", "GrainOf(%s): %v", names[i], err)
		}
		idents[i] = id
	}

	if c.NoiseProbK > 0 {
		vfsched.SetNoise(c.NoiseSeed, float64(c.NoiseProbK)/1000, c.NoiseSleep)
	}
	defer vfsched.SetNoise(0, 0, 0)

	var sendMu sync.Mutex
	var sends []*c31Send
	var wg sync.WaitGroup
	for ti, ops := range c.Threads {
		wg.Add(1)
		go func(ti int, ops []c31Op) {
			defer wg.Done()
			for oi, op := range ops {
				if op.GapMs > 0 {
					time.Sleep(time.Duration(op.GapMs) * time.Millisecond)
				}
				s := &c31Send{msg: (ti+1)*100 + oi, ident: names[op.Ident], kind: op.Kind, viaOf: op.ViaOf}
				id := idents[op.Ident]
				s.start = w.log("send_start", s.ident, 0, s.msg, op.Kind)
				if op.ViaOf {
					var oerr error
					id, oerr = GrainOf[*c31Grain](ctx, sys, s.ident, opts...)
					if oerr != nil {
						s.err = fmt.Errorf("GrainOf: %w", oerr)
					}
				}
				if s.err == nil {
					switch op.Kind {
					case "tell":
						s.err = sys.TellGrain(ctx, id, &c31Msg{ID: s.msg, HandleMs: op.HandleMs, SelfPoison: op.SelfPoison})
					case "ask":
						var resp any
						resp, s.err = sys.AskGrain(ctx, id, &c31Msg{ID: s.msg, Ask: true, HandleMs: op.HandleMs, SelfPoison: op.SelfPoison}, 8*time.Second)
						if r, ok := resp.(*c31Reply); ok {
							s.replyAct = r.Act
						}
					case "poison":
						s.err = sys.TellGrain(ctx, id, new(PoisonPill))
					}
				}
				s.end = w.log("send_end", s.ident, s.replyAct, s.msg, fmt.Sprintf("%s err=%v", op.Kind, s.err))
				sendMu.Lock()
				sends = append(sends, s)
				sendMu.Unlock()
			}
		}(ti, ops)
	}
	if c.StopAtMs >= 0 {
		wg.Add(1)
		go func() {
			defer wg.Done()
			time.Sleep(time.Duration(c.StopAtMs) * time.Millisecond)
			stop()
		}()
	}
	done := make(chan struct{})
	go func() { wg.Wait(); w.bg.Wait(); close(done) }()
	select {
	case <-done:
	case <-time.After(90 * time.Second):
		x.Class("inconclusive_senders_stalled")
		vfsched.SetNoise(0, 0, 0)
		stop()
		return
	}
	vfsched.SetNoise(0, 0, 0)
	stop()

	w.mu.Lock()
	events := append([]c31Event(nil), w.events...)
	w.mu.Unlock()
	for _, e := range events {
		x.Logf("%4d %-11s %-3s act=%d msg=%d g=%s %s", e.Seq, e.Kind, e.Ident, e.Act, e.Msg, e.Gid, e.Note)
	}
	viols := c31Judge(x, c, events, sends, stopErr)
	if len(viols) == 0 {
		return
	}
	var firstKnown *c31Viol
	for i := range viols {
		v := viols[i]
		if x.Known(v.fp) {
			x.Class("known_" + v.fp)
			if firstKnown == nil {
				firstKnown = &viols[i]
			}
			continue
		}
		x.Failf(v.fp, "%s", v.msg)
	}
	// only listed findings were observed: report the first one (counted as a known hit)
	x.Failf(firstKnown.fp, "%s", firstKnown.msg)
}

type c31Recv struct {
	enter, exit int64
	msg         int
}

type c31Act struct {
	id         int64
	ident      string
	enter      int64
	exit       int64
	recvs      []c31Recv
	reusedFrom int64  // previous activation number of the same Go instance (0 = fresh instance)
	gid        string // goroutine that ran OnActivate (activation runs on the goroutine of the send that needs it)
	deactEnter []int64
	deactExit  []int64
	causes     []string
}

func (a *c31Act) cause() string {
	if len(a.causes) == 0 {
		return "none"
	}
	return a.causes[0]
}

// c31Judge evaluates the invariants of the property over one history.
func c31Judge(x *vfkit.X, c c31Case, events []c31Event, sends []*c31Send, stopErr error) []c31Viol {
	var viols []c31Viol
	add := func(fp, format string, args ...any) {
		for _, v := range viols {
			if v.fp == fp {
				return
			}
		}
		viols = append(viols, c31Viol{fp, fmt.Sprintf(format, args...)})
	}
	acts := map[int64]*c31Act{}
	var order []int64
	get := func(e c31Event) *c31Act {
		a := acts[e.Act]
		if a == nil {
			a = &c31Act{id: e.Act, ident: e.Ident}
			acts[e.Act] = a
			order = append(order, e.Act)
		}
		return a
	}
	var stopStart, stopEnd int64
	gidOf := map[int64]string{}
	for _, e := range events {
		gidOf[e.Seq] = e.Gid
		switch e.Kind {
		case "stop_start":
			stopStart = e.Seq
		case "stop_end":
			stopEnd = e.Seq
		case "act_enter":
			get(e).enter = e.Seq
			get(e).reusedFrom = int64(e.Msg)
			get(e).gid = e.Gid
		case "act_exit":
			get(e).exit = e.Seq
		case "recv_enter":
			a := get(e)
			a.recvs = append(a.recvs, c31Recv{enter: e.Seq, msg: e.Msg})
		case "recv_exit":
			a := get(e)
			for i := len(a.recvs) - 1; i >= 0; i-- {
				if a.recvs[i].msg == e.Msg && a.recvs[i].exit == 0 {
					a.recvs[i].exit = e.Seq
					break
				}
			}
		case "deact_enter":
			a := get(e)
			a.deactEnter = append(a.deactEnter, e.Seq)
			a.causes = append(a.causes, e.Note)
		case "deact_exit":
			a := get(e)
			a.deactExit = append(a.deactExit, e.Seq)
		}
	}
	sort.Slice(order, func(i, j int) bool { return order[i] < order[j] })
	const inf = int64(1) << 62

	// No lifecycle hook of a grain instance starts while another lifecycle hook of
	// the same instance is in progress: OnActivate never overlaps OnDeactivate on
	// one Go instance. Judged first so that no listed finding can mask it.
	type hook struct {
		kind        string // act | deact
		enter, exit int64
		act         int64
		gid, cause  string
	}
	hooks := map[int64][]*hook{}
	var insts []int64
	for _, e := range events {
		if e.Inst == 0 {
			continue
		}
		switch e.Kind {
		case "act_enter", "deact_enter":
			if _, ok := hooks[e.Inst]; !ok {
				insts = append(insts, e.Inst)
			}
			k := "act"
			cause := ""
			if e.Kind == "deact_enter" {
				k, cause = "deact", e.Note
			}
			hooks[e.Inst] = append(hooks[e.Inst], &hook{kind: k, enter: e.Seq, act: e.Act, gid: e.Gid, cause: cause})
		case "act_exit", "deact_exit":
			k := "act"
			if e.Kind == "deact_exit" {
				k = "deact"
			}
			hs := hooks[e.Inst]
			for i := len(hs) - 1; i >= 0; i-- {
				if hs[i].kind == k && hs[i].exit == 0 && hs[i].gid == e.Gid {
					hs[i].exit = e.Seq
					break
				}
			}
		}
	}
	for _, inst := range insts {
		hs := hooks[inst]
		for _, a := range hs {
			if a.kind != "act" {
				continue
			}
			for _, d := range hs {
				if d.kind != "deact" {
					continue
				}
				ax, dx := a.exit, d.exit
				if ax == 0 {
					ax = inf
				}
				if dx == 0 {
					dx = inf
				}
				if a.enter < dx && d.enter < ax {
					// the deactivation path names the finding; an activation that was
					// deactivated twice (listed R1 finding: off-turn passivation racing a
					// PoisonPill) is named after that, whichever of the two hooks overlaps
					path := d.cause
					n := 0
					for _, d2 := range hs {
						if d2.kind == "deact" && d2.act == d.act {
							n++
						}
					}
					if n > 1 {
						path = "double-deactivation"
					}
					x.Class("hook_overlap_" + path)
					add("onactivate-overlaps-ondeactivate:"+path, "identity instance #%d: OnActivate (activation %d) [%d,%d] overlaps OnDeactivate (activation %d, via %s) [%d,%d] on the same Go instance", inst, a.act, a.enter, a.exit, d.act, d.cause, d.enter, d.exit)
				}
			}
		}
	}
	byIdent := map[string][]*c31Act{}
	for _, id := range order {
		a := acts[id]
		byIdent[a.ident] = append(byIdent[a.ident], a)
		x.Class("deactivated_by_" + a.cause())
		if id == 0 {
			add("receive-on-instance-never-activated", "identity %s: OnReceive ran on an instance whose OnActivate never ran", a.ident)
			continue
		}
		// a new activation gets a fresh instance once the previous one was deactivated
		// (judged only when the send that triggered the activation started after
		// that OnDeactivate returned: the property is silent about sends that are
		// concurrent with the deactivation)
		if a.reusedFrom != 0 {
			p := acts[a.reusedFrom]
			var trigger *c31Send
			for _, sd := range sends {
				if sd.ident == a.ident && sd.start < a.enter && sd.end > a.enter && gidOf[sd.start] == a.gid {
					trigger = sd
				}
			}
			switch {
			case p == nil || len(p.deactExit) == 0 || p.deactExit[0] > a.enter:
				x.Class("obs_instance_reactivated_before_its_deactivation_finished")
			case trigger != nil && trigger.start > p.deactExit[0]:
				// grainof-race: the trigger itself went through GrainOf, or a
				// GrainOf+send of this identity was in flight between the start of
				// that deactivation and this activation (the shape of the listed
				// finding); plain-send: nothing but plain Tell/Ask was involved
				shape := "plain-send"
				for _, sd := range sends {
					if sd.ident == a.ident && sd.viaOf && sd.start < a.enter && sd.end > p.deactEnter[0] {
						shape = "grainof-race"
					}
				}
				add("instance-reused-after-deactivation:"+shape, "identity %s activation %d, triggered by message %d sent at %d, runs on the instance of activation %d whose OnDeactivate returned (nil) at %d", a.ident, id, trigger.msg, trigger.start, a.reusedFrom, p.deactExit[0])
			default:
				x.Class("obs_instance_reused_by_send_concurrent_with_deactivation")
			}
		}
		// OnActivate completes before the first OnReceive
		for _, r := range a.recvs {
			if a.exit == 0 || r.enter < a.exit {
				// reused-instance: the activation re-uses a process that was being
				// deactivated; its old mailbox is still being drained (listed finding)
				inst := "fresh-instance"
				if a.reusedFrom != 0 {
					inst = "reused-instance"
				}
				add("receive-before-activation-completed:"+inst, "identity %s activation %d: OnReceive(msg %d) entered at %d, OnActivate returned at %d", a.ident, id, r.msg, r.enter, a.exit)
			}
		}
		// single-threaded: OnReceive intervals of one activation never overlap
		for i := 0; i < len(a.recvs); i++ {
			for j := i + 1; j < len(a.recvs); j++ {
				ri, rj := a.recvs[i], a.recvs[j]
				ei, ej := ri.exit, rj.exit
				if ei == 0 {
					ei = inf
				}
				if ej == 0 {
					ej = inf
				}
				if ri.enter < ej && rj.enter < ei {
					add("concurrent-receives", "identity %s activation %d: OnReceive(msg %d) [%d,%d] overlaps OnReceive(msg %d) [%d,%d]", a.ident, id, ri.msg, ri.enter, ri.exit, rj.msg, rj.enter, rj.exit)
				}
			}
		}
		// OnDeactivate at most once
		if len(a.deactEnter) > 1 {
			add("deactivated-twice:"+strings.Join(a.causes, "+"), "identity %s activation %d: OnDeactivate ran %d times (%v)", a.ident, id, len(a.deactEnter), a.causes)
		}
		if len(a.deactEnter) >= 1 {
			de := a.deactEnter[0]
			dx := inf
			if len(a.deactExit) >= 1 {
				dx = a.deactExit[0]
			}
			for _, r := range a.recvs {
				rx := r.exit
				if rx == 0 {
					rx = inf
				}
				switch {
				case r.enter < de && rx > de:
					add("deactivate-overlaps-receive:"+a.cause(), "identity %s activation %d: OnDeactivate entered at %d while OnReceive(msg %d) [%d,%d] was running (deactivation via %s)", a.ident, id, de, r.msg, r.enter, r.exit, a.cause())
				case r.enter > de && r.enter < dx:
					add("receive-during-deactivate:"+a.cause(), "identity %s activation %d: OnReceive(msg %d) entered at %d while OnDeactivate [%d,%d] was running (deactivation via %s)", a.ident, id, r.msg, r.enter, de, dx, a.cause())
				case r.enter > dx:
					add("receive-after-deactivate:"+a.cause(), "identity %s activation %d: OnReceive(msg %d) entered at %d after OnDeactivate returned at %d (deactivation via %s)", a.ident, id, r.msg, r.enter, dx, a.cause())
				}
			}
		}
		// after a clean system.Stop every activation has ended: exactly one OnDeactivate
		if stopErr == nil && stopEnd != 0 && len(a.deactEnter) == 0 {
			// during-stop: OnActivate had not returned yet when Stop began (the
			// activation raced the shutdown); before-stop: a fully activated grain
			// was left without OnDeactivate
			when := "before-stop"
			if stopStart != 0 && (a.exit == 0 || a.exit > stopStart) {
				when = "during-stop"
			}
			// after-double-deactivation: an earlier activation of the identity was
			// deactivated twice; the slower deactivate() deletes the registry entry
			// of its successor, which Stop then cannot find
			for _, id2 := range order {
				if b := acts[id2]; b.ident == a.ident && id2 < id && len(b.deactEnter) > 1 {
					when = "after-double-deactivation"
				}
			}
			// reused-instance: the activation re-used the process of an activation
			// whose deactivate() was still running; its tail (registry delete,
			// activated=false) then hits the re-activated process
			if a.reusedFrom != 0 && when == "before-stop" {
				when = "reused-instance"
			}
			add("activation-never-deactivated:"+when, "identity %s activation %d (OnActivate at %d, stop [%d,%d]) never got OnDeactivate although system.Stop returned nil", a.ident, id, a.enter, stopStart, stopEnd)
		}
	}
	if stopErr != nil {
		x.Class("stop_returned_error")
	}
	for ident, as := range byIdent {
		if len(as) > 1 {
			x.Class("identity_reactivated")
		}
		for i := 1; i < len(as); i++ {
			prev := as[i-1]
			if prev.id != 0 && (len(prev.deactEnter) == 0 || prev.deactEnter[0] > as[i].enter) {
				x.Class("obs_two_live_activations_of_one_identity")
				x.Note("two_live_activations", fmt.Sprintf("%s: activation %d entered at %d before activation %d began deactivating", ident, as[i].id, as[i].enter, prev.id))
			}
		}
	}

	// a message sent after deactivation activates a fresh instance that receives it
	handledBy := map[int]int64{}
	for _, id := range order {
		for _, r := range acts[id].recvs {
			handledBy[r.msg] = id
		}
	}
	for _, s := range sends {
		if s.err != nil {
			x.Class("send_error")
		}
		if s.kind == "poison" {
			continue
		}
		if stopStart != 0 && s.end > stopStart {
			x.Class("send_overlaps_stop")
			continue
		}
		var latest *c31Act
		for _, a := range byIdent[s.ident] {
			if a.id != 0 && a.enter != 0 && a.enter < s.start {
				latest = a
			}
		}
		if latest == nil || len(latest.deactExit) == 0 || latest.deactExit[0] > s.start {
			continue
		}
		// a deactivation (explicit or passivation) that begins while this send is in
		// flight makes the send concurrent with a deactivation again: the property
		// only speaks about sends made after one
		concurrent := false
		for _, a := range byIdent[s.ident] {
			for _, de := range a.deactEnter {
				if de > s.start && de < s.end {
					concurrent = true
				}
			}
		}
		h, handled := handledBy[s.msg]
		if concurrent {
			x.Class("send_after_deactivation_races_next_deactivation")
			if s.err != nil || !handled {
				x.Class("obs_send_dropped_by_concurrent_deactivation")
				x.Note("dropped_send", fmt.Sprintf("%s msg %d: err=%v handled=%v", s.ident, s.msg, s.err, handled))
			}
			continue
		}
		x.Class("send_after_deactivation")
		switch {
		case s.err != nil || !handled:
			kind := "silently"
			switch {
			case s.err == nil:
			case errors.Is(s.err, gerrors.ErrDead):
				kind = "dead"
			case errors.Is(s.err, gerrors.ErrRequestTimeout):
				kind = "timeout"
			default:
				kind = "error"
			}
			add("send-after-deactivation-not-received:"+kind, "identity %s: message %d sent at %d, after activation %d finished OnDeactivate at %d, was not received (handled=%v err=%v)", s.ident, s.msg, s.start, latest.id, latest.deactExit[0], handled, s.err)
		case h <= latest.id:
			add("send-after-deactivation-handled-by-old-activation:"+latest.cause(), "identity %s: message %d sent at %d, after activation %d finished OnDeactivate at %d, was handled by activation %d", s.ident, s.msg, s.start, latest.id, latest.deactExit[0], h)
		default:
			x.Class("fresh_activation_received_the_send")
		}
	}
	return viols
}

func TestVF_C31_lifecycle(t *testing.T) {
	vfkit.Run(t, vfkit.Spec[c31Case]{
		ID:   "C31",
		Unit: "lifecycle",
		Rule: "a case is a program for one real ActorSystem: 1..3 grain identities (deactivateAfter 40/80/150(/300) ms, reentrancy on/off, OnActivate 0..5 ms, OnDeactivate 0..20 ms), 1..3 sender goroutines with 1..6 sends each (Tell/Ask/PoisonPill, gap 0..2 x deactivateAfter biased to +-25% of it, handler 0 / 1 ms / 2 x deactivateAfter, optional GrainOf before the send, optional self-deactivation started by the handler), optional system.Stop at a generated instant, E4 schedule-noise profile. Non-trivial: some send is placed within +-25% of the passivation deadline, or some handler lasts longer than deactivateAfter. Distinct = distinct case value. Verdicts are invariants over the recorded hook history (logical clock) and API results; no verdict depends on elapsed time (a sender that does not return within 90 s is class inconclusive).",
		Gen:  c31Gen,
		Exec: c31Exec,
		// real scheduler: a stored case is replayed several times
		ReplayReps: 20,
		// a panic on a framework goroutine kills the process: persist the case first
		CrashSafe: true,
	})
}

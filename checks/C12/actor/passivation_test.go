//go:build verif

package actor

import (
	"context"
	"errors"
	"fmt"
	"runtime"
	"sort"
	"strings"
	"sync"
	"sync/atomic"
	"testing"
	"time"

	"pgregory.net/rapid"

	"github.com/tochemey/goakt/v4/internal/vfkit"
	"github.com/tochemey/goakt/v4/log"
	"github.com/tochemey/goakt/v4/passivation"
	"github.com/tochemey/goakt/v4/supervisor"
)

// ---- C12: passivation only removes actors that are truly idle ----------------------
//
// A case is a batch of independent programs run concurrently on one real ActorSystem
// (the passivation manager reads the real clock, so programs take real time). Each
// program spawns one instrumented actor with a time-based / message-count / long-lived
// strategy and drives a generated arrival pattern (gaps relative to the timeout,
// handler durations, bursts, PausePassivation/ResumePassivation, a failing message
// that suspends the actor followed by Reinstate, an external stop). The actor's hooks
// and two observation prologues inside the framework (message dispatch with the
// activity stamp the framework uses; entry of tryPassivation) append events carrying
// a logical timestamp from one atomic counter and a monotonic clock reading.

const (
	c12KDispatch = iota // framework: message dequeued, about to be stamped/counted (Stamp = activity stamp)
	c12KRecvEnter
	c12KRecvExit
	c12KPostEnter
	c12KPostExit
	c12KTry // framework: tryPassivation entered
	c12KSpawn
	c12KSent
	c12KPauseConfirmed // a marker sent after PausePassivation has been handled
	c12KResumeSent
	c12KSuspendObserved
	c12KReinstateIssued
	c12KStopIssued
	c12KStopReturned
	c12KCleanup
)

var c12KindName = []string{"dispatch", "Receive-enter", "Receive-exit", "PostStop-enter", "PostStop-exit", "tryPassivation", "spawn", "sent", "pause-confirmed", "resume-sent", "suspend-observed", "reinstate-issued", "stop-issued", "stop-returned", "cleanup"}

const (
	c12StratTime = iota
	c12StratCount
	c12StratLongLived
)

const (
	c12StepMsg = iota
	c12StepBurst
	c12StepPause
	c12StepResume
	c12StepFailSuspend // failing message without directive -> suspended; stays suspended SuspPct% of T; Reinstate
	c12StepFailResume  // failing message with a Resume directive
	c12StepStop        // external PID.Shutdown (ends the program)
)

const (
	c12FpMidHandler = "passivated-mid-handler"
	c12FpWithinT    = "passivated-within-timeout-of-last-message"
	c12FpTwice      = "passivated-after-stop"
	c12Slack        = 100 * time.Millisecond // documented activity-coalescing slack (passivationTouchInterval)
	c12Margin       = 50 * time.Millisecond
	c12Cap          = 20 * time.Second
)

type c12Step struct {
	Kind    int `json:"kind"`
	GapPct  int `json:"gap_pct"`  // pause before the step, % of T
	DurPct  int `json:"dur_pct"`  // handler duration: -1 = 1ms, else % of T
	Burst   int `json:"burst"`    // messages sent back to back
	SuspPct int `json:"susp_pct"` // time spent suspended, % of T
}

type c12Prog struct {
	Strat int       `json:"strat"`
	TMs   int       `json:"t_ms"` // timeout (time-based); time unit of the gaps otherwise
	N     int       `json:"n"`    // message-count threshold
	Steps []c12Step `json:"steps"`
}

type c12Case struct {
	Progs []c12Prog `json:"progs"`
}

// ---- recorder -------------------------------------------------------------------------

type c12Ev struct {
	TS    int64
	At    time.Duration // monotonic, since the program's base
	K     int
	Msg   int
	Stamp time.Duration // dispatch: the framework's activity stamp, relative to base
	Path  string
}

type c12Rec struct {
	base  time.Time
	ctr   atomic.Int64
	mu    sync.Mutex
	evs   []c12Ev
	posts atomic.Int32 // PostStop-enter count
}

func (r *c12Rec) add(e c12Ev) int64 {
	e.At = time.Since(r.base)
	e.TS = r.ctr.Add(1)
	r.mu.Lock()
	r.evs = append(r.evs, e)
	r.mu.Unlock()
	return e.TS
}

func (r *c12Rec) snapshot() []c12Ev {
	r.mu.Lock()
	out := append([]c12Ev(nil), r.evs...)
	r.mu.Unlock()
	sort.Slice(out, func(i, j int) bool { return out[i].TS < out[j].TS })
	return out
}

type c12Msg struct {
	ID   int
	Dur  time.Duration
	Fail int // 0 none, 1 error without directive (suspend), 2 error with Resume directive
}

type c12SuspendErr struct{}

func (c12SuspendErr) Error() string { return "c12: no directive for this error" }

type c12ResumeErr struct{}

func (c12ResumeErr) Error() string { return "c12: resume directive" }

type c12Actor struct {
	rec     *c12Rec
	handled chan int
}

func (a *c12Actor) PreStart(*Context) error { return nil }

func (a *c12Actor) PostStop(*Context) error {
	path := "other"
	var pcs [64]uintptr
	n := runtime.Callers(1, pcs[:])
	frames := runtime.CallersFrames(pcs[:n])
	for {
		f, more := frames.Next()
		if strings.HasSuffix(f.Function, "actor.(*PID).tryPassivation") {
			path = "passivation"
			break
		}
		if !more {
			break
		}
	}
	a.rec.posts.Add(1)
	a.rec.add(c12Ev{K: c12KPostEnter, Path: path})
	a.rec.add(c12Ev{K: c12KPostExit})
	return nil
}

func (a *c12Actor) Receive(ctx *ReceiveContext) {
	m, _ := ctx.Message().(*c12Msg)
	id := -1
	if m != nil {
		id = m.ID
	}
	a.rec.add(c12Ev{K: c12KRecvEnter, Msg: id})
	if m != nil {
		if m.Dur > 0 {
			time.Sleep(m.Dur)
		}
		switch m.Fail {
		case 1:
			ctx.Err(c12SuspendErr{})
		case 2:
			ctx.Err(c12ResumeErr{})
		}
	}
	a.rec.add(c12Ev{K: c12KRecvExit, Msg: id})
	if m != nil {
		a.handled <- id
	}
}

type c12Nop struct{}

func (c12Nop) PreStart(*Context) error { return nil }
func (c12Nop) PostStop(*Context) error { return nil }
func (c12Nop) Receive(*ReceiveContext) {}

// ---- generator --------------------------------------------------------------------------

func c12GenProg(t *rapid.T, known bool) c12Prog {
	var p c12Prog
	p.Strat = rapid.SampledFrom([]int{c12StratTime, c12StratTime, c12StratTime, c12StratTime, c12StratCount, c12StratCount, c12StratLongLived}).Draw(t, "strat")
	p.TMs = rapid.SampledFrom([]int{400, 600, 800}).Draw(t, "T")
	p.N = rapid.IntRange(1, 5).Draw(t, "N")
	if p.Strat != c12StratTime {
		p.TMs = 300
	}
	// boundary-biased gaps (% of T): far below, around T/2, just below / at / just above the deadline, far above
	gaps := []int{2, 2, 10, 10, 50, 50, 80, 90, 97, 100, 103, 110, 125}
	durs := []int{0, 0, -1, -1, 30, 30, 60}
	if p.Strat == c12StratTime {
		// a handler (or a turn) that outlasts T: the shape of the listed findings; kept,
		// but rare while they are listed so that most programs explore behind them
		if known {
			durs = append(durs, 0, -1, 30, 0, -1, 150)
		} else {
			durs = append(durs, 150, 150)
		}
	}
	n := rapid.IntRange(1, 6).Draw(t, "steps")
	budget := 450 // program length bound: sum of gaps, % of T
	paused := false
	for i := 0; i < n; i++ {
		var s c12Step
		kinds := []int{c12StepMsg, c12StepMsg, c12StepMsg, c12StepMsg, c12StepBurst, c12StepFailResume}
		if p.Strat != c12StratLongLived {
			kinds = append(kinds, c12StepFailSuspend, c12StepFailSuspend, c12StepStop)
			if paused {
				kinds = append(kinds, c12StepResume, c12StepResume)
			} else {
				kinds = append(kinds, c12StepPause, c12StepPause, c12StepResume)
			}
		}
		s.Kind = kinds[rapid.IntRange(0, len(kinds)-1).Draw(t, "kind")]
		s.GapPct = gaps[rapid.IntRange(0, len(gaps)-1).Draw(t, "gap")]
		if paused {
			// a pause window is only interesting when it covers a deadline
			s.GapPct = rapid.SampledFrom([]int{50, 110, 130, 160}).Draw(t, "pausedGap")
		}
		if s.GapPct > budget {
			s.GapPct = 2
		}
		budget -= s.GapPct
		s.DurPct = durs[rapid.IntRange(0, len(durs)-1).Draw(t, "dur")]
		switch s.Kind {
		case c12StepBurst:
			s.Burst = rapid.IntRange(2, 6).Draw(t, "burst")
			if s.DurPct > 30 {
				s.DurPct = 30
			}
		case c12StepPause:
			paused = true
		case c12StepResume:
			paused = false
		case c12StepFailSuspend:
			s.SuspPct = rapid.SampledFrom([]int{20, 110, 140}).Draw(t, "susp")
			if s.SuspPct > budget {
				s.SuspPct = 20
			}
			budget -= s.SuspPct
			paused = false
		}
		p.Steps = append(p.Steps, s)
		if s.Kind == c12StepStop {
			break
		}
	}
	return p
}

func c12Gen(t *rapid.T) c12Case {
	known := vfkit.Known("C12", c12FpMidHandler) && vfkit.Known("C12", c12FpWithinT)
	var c c12Case
	n := 10
	for i := 0; i < n; i++ {
		c.Progs = append(c.Progs, c12GenProg(t, known))
	}
	return c
}

// ---- system under test ---------------------------------------------------------------------

var (
	c12Sys    ActorSystem
	c12Helper *PID
	c12Seq    atomic.Int64
	c12Mu     sync.Mutex
)

func c12NewSystem() error {
	sys, err := NewActorSystem(fmt.Sprintf("vfC12g%d", c12Seq.Add(1)), WithLogger(log.DiscardLogger))
	if err != nil {
		return err
	}
	if err := sys.Start(context.Background()); err != nil {
		return err
	}
	h, err := sys.Spawn(context.Background(), "c12-helper", c12Nop{}, WithLongLived())
	if err != nil {
		return err
	}
	c12Sys, c12Helper = sys, h
	return nil
}

func c12Start(t *testing.T) {
	c12DispatchHook = func(pid *PID, received *ReceiveContext, now time.Time) {
		a, ok := pid.actor.(*c12Actor)
		if !ok {
			return
		}
		id := -1
		if m, ok := received.Message().(*c12Msg); ok {
			id = m.ID
		}
		a.rec.add(c12Ev{K: c12KDispatch, Msg: id, Stamp: now.Sub(a.rec.base)})
	}
	c12TryHook = func(pid *PID) {
		if a, ok := pid.actor.(*c12Actor); ok {
			a.rec.add(c12Ev{K: c12KTry})
		}
	}
	t.Cleanup(func() { c12DispatchHook, c12TryHook = nil, nil })
	if err := c12NewSystem(); err != nil {
		t.Fatalf("actor system: %v", err)
	}
	t.Cleanup(func() { _ = c12Sys.Stop(context.Background()) })
}

// ---- one program ---------------------------------------------------------------------------

type c12Viol struct {
	fp, msg string
	timing  bool // verdict compares clock readings: three-strikes rule applies
}

type c12Res struct {
	viols      []c12Viol
	classes    []string
	nontrivial bool
	log        []string
	dead       bool // the actor system stopped itself: nothing judged
}

func c12WaitUntil(cond func() bool, limit time.Duration) bool {
	deadline := time.Now().Add(limit)
	for !cond() {
		if time.Now().After(deadline) {
			return false
		}
		time.Sleep(500 * time.Microsecond)
	}
	return true
}

func c12Run(sys ActorSystem, helper *PID, pr c12Prog) *c12Res {
	res := &c12Res{}
	ctx := context.Background()
	T := time.Duration(pr.TMs) * time.Millisecond
	rec := &c12Rec{base: time.Now()}
	act := &c12Actor{rec: rec, handled: make(chan int, 256)}
	opts := []SpawnOption{WithSupervisor(supervisor.NewSupervisor(supervisor.WithDirective(c12ResumeErr{}, supervisor.ResumeDirective)))}
	switch pr.Strat {
	case c12StratTime:
		opts = append(opts, WithPassivationStrategy(passivation.NewTimeBasedStrategy(T)))
	case c12StratCount:
		opts = append(opts, WithPassivationStrategy(passivation.NewMessageCountBasedStrategy(pr.N)))
	default:
		opts = append(opts, WithLongLived())
	}
	rec.add(c12Ev{K: c12KSpawn})
	pid, err := sys.Spawn(ctx, fmt.Sprintf("c12-%d", c12Seq.Add(1)), act, opts...)
	if err != nil {
		res.dead = !sys.Running()
		res.classes = append(res.classes, "spawn_failed")
		return res
	}
	defer func() { _ = pid.Shutdown(ctx) }()

	gone := func() bool { return rec.posts.Load() > 0 }
	pct := func(p int) time.Duration { return T * time.Duration(p) / 100 }
	nextID := 0
	done := map[int]bool{}
	// send one user message; ok=false: the actor is gone (or the message can no longer be handled)
	send := func(dur time.Duration, fail int) (int, bool) {
		id := nextID
		nextID++
		rec.add(c12Ev{K: c12KSent, Msg: id})
		if err := Tell(ctx, pid, &c12Msg{ID: id, Dur: dur, Fail: fail}); err != nil {
			return id, false
		}
		return id, true
	}
	await := func(id int, extra time.Duration) bool {
		deadline := time.Now().Add(c12Cap + extra)
		for !done[id] {
			select {
			case got := <-act.handled:
				done[got] = true
			case <-time.After(time.Millisecond):
				if gone() && len(act.handled) == 0 {
					// stopped: the message may have been dropped with the mailbox
					if c12WaitUntil(func() bool { return pid.schedState.Load() == dispatchIdle }, time.Second) && len(act.handled) == 0 {
						return done[id]
					}
				}
				if time.Now().After(deadline) {
					res.classes = append(res.classes, "inconclusive_message_not_handled")
					return false
				}
			}
		}
		return true
	}
	durOf := func(p int) time.Duration {
		switch {
		case p < 0:
			return time.Millisecond
		default:
			return pct(p)
		}
	}
	lastActivity := time.Since(rec.base) // harness estimate, for the non-triviality rule only
	paused, pausedSince := false, time.Duration(0)
	stopped := false

steps:
	for _, s := range pr.Steps {
		time.Sleep(pct(s.GapPct))
		if gone() {
			break
		}
		sinceAct := time.Since(rec.base) - lastActivity
		if pr.Strat == c12StratTime && !paused && sinceAct >= T*3/4 && sinceAct <= T*5/4 {
			res.nontrivial = true
			res.classes = append(res.classes, "arrival_within_25pct_of_deadline")
		}
		if paused && time.Since(rec.base)-pausedSince > T+c12Slack {
			res.nontrivial = true
			res.classes = append(res.classes, "pause_window_covers_deadline")
		}
		switch s.Kind {
		case c12StepMsg, c12StepFailResume:
			fail := 0
			if s.Kind == c12StepFailResume {
				fail = 2
			}
			d := durOf(s.DurPct)
			if pr.Strat == c12StratTime && d >= T {
				res.nontrivial = true
				res.classes = append(res.classes, "handler_outlasts_timeout")
			}
			id, ok := send(d, fail)
			if !ok || !await(id, d) {
				break steps
			}
			lastActivity = time.Since(rec.base)
		case c12StepBurst:
			d := durOf(s.DurPct)
			var ids []int
			for k := 0; k < s.Burst; k++ {
				id, ok := send(d, 0)
				if !ok {
					break steps
				}
				ids = append(ids, id)
			}
			if pr.Strat == c12StratTime && d*time.Duration(s.Burst) >= T {
				res.nontrivial = true
				res.classes = append(res.classes, "turn_outlasts_timeout")
			}
			for _, id := range ids {
				if !await(id, d*time.Duration(s.Burst)) {
					break steps
				}
			}
			lastActivity = time.Since(rec.base)
		case c12StepPause, c12StepResume:
			if s.Kind == c12StepPause {
				if err := Tell(ctx, pid, &PausePassivation{}); err != nil {
					break steps
				}
			} else {
				rec.add(c12Ev{K: c12KResumeSent})
				paused = false
				if err := Tell(ctx, pid, &ResumePassivation{}); err != nil {
					break steps
				}
				// let the manager act on the resumed entry before the marker's own activity
				// refreshes the deadline again
				time.Sleep(T / 20)
				if gone() {
					break steps
				}
			}
			// control messages overtake user messages; a user message sent afterwards is
			// handled after them: when the marker is handled the pause/resume is in effect
			id, ok := send(0, 0)
			if !ok || !await(id, 0) {
				break steps
			}
			if s.Kind == c12StepPause {
				// the marker's Receive-exit is in the history; confirmed from there on
				rec.add(c12Ev{K: c12KPauseConfirmed})
				paused, pausedSince = true, time.Since(rec.base)
			}
			lastActivity = time.Since(rec.base)
		case c12StepFailSuspend:
			id, ok := send(0, 1)
			if !ok || !await(id, 0) {
				break steps
			}
			if !c12WaitUntil(func() bool { return pid.IsSuspended() || gone() }, c12Cap) {
				res.classes = append(res.classes, "inconclusive_not_suspended")
				break steps
			}
			if gone() {
				break steps
			}
			rec.add(c12Ev{K: c12KSuspendObserved})
			if pct(s.SuspPct) > T+c12Slack {
				res.nontrivial = true
				res.classes = append(res.classes, "suspension_covers_deadline")
			}
			time.Sleep(pct(s.SuspPct))
			rec.add(c12Ev{K: c12KReinstateIssued})
			paused = false
			if err := helper.Reinstate(pid); err != nil {
				res.classes = append(res.classes, "reinstate_failed")
				break steps
			}
			lastActivity = time.Since(rec.base)
		case c12StepStop:
			rec.add(c12Ev{K: c12KStopIssued})
			_ = pid.Shutdown(ctx)
			rec.add(c12Ev{K: c12KStopReturned})
			stopped = true
			break steps
		}
	}
	// observe: nothing is required to happen (liveness is not asserted); give a wrong
	// passivation (paused / suspended / long-lived / already stopped) the time to show up
	watch := T + 300*time.Millisecond
	if stopped {
		watch = T / 2
	}
	obsEnd := time.Now().Add(watch)
	for time.Now().Before(obsEnd) {
		if gone() && !stopped {
			break
		}
		time.Sleep(2 * time.Millisecond)
	}
	passivated := false
	if gone() {
		// the stop in progress has finished (tryPassivation clears passivatingState last)
		c12WaitUntil(func() bool { return !pid.isStateSet(passivatingState) && pid.schedState.Load() == dispatchIdle }, c12Cap)
	}
	evs := rec.snapshot()
	for _, e := range evs {
		if e.K == c12KPostEnter && e.Path == "passivation" {
			passivated = true
		}
	}
	if passivated && !stopped && pid.IsRunning() {
		res.viols = append(res.viols, c12Viol{fp: "passivated-but-running", msg: "PostStop ran through tryPassivation and the attempt is over, yet IsRunning() is still true"})
	}
	rec.add(c12Ev{K: c12KCleanup})
	_ = pid.Shutdown(ctx)
	c12WaitUntil(func() bool { return !pid.isStateSet(passivatingState) }, c12Cap)
	if !sys.Running() {
		res.dead = true
		return res
	}
	c12Judge(res, pr, rec.snapshot())
	return res
}

// ---- oracle ----------------------------------------------------------------------------------

func c12Judge(res *c12Res, pr c12Prog, evs []c12Ev) {
	T := time.Duration(pr.TMs) * time.Millisecond
	viol := func(timing bool, fp, format string, args ...any) {
		res.viols = append(res.viols, c12Viol{fp: fp, msg: fmt.Sprintf(format, args...), timing: timing})
	}
	for _, e := range evs {
		res.log = append(res.log, fmt.Sprintf("ts=%d t=%.1fms %s msg=%d stamp=%.1fms %s", e.TS, float64(e.At)/1e6, c12KindName[e.K], e.Msg, float64(e.Stamp)/1e6, e.Path))
	}
	posts := 0
	var (
		paused, suspended, stopReturned, cleanup bool
		pausedAtTry, suspendedAtTry              bool
		inHandler                                int
		lastHandled                              = time.Duration(-1) // latest Receive enter/exit
		lastHandledWhat                          string
		lastTry                                  *c12Ev
		tryDispatch                              *c12Ev // at lastTry: latest dispatch whose handler had been entered
		lastEnteredDispatch                      *c12Ev
		pendingDispatch                          = map[int]*c12Ev{}
		userDispatched, userDispatchedAtTry      int
		spawnAt                                  time.Duration
	)
	for i := range evs {
		e := &evs[i]
		switch e.K {
		case c12KSpawn:
			spawnAt = e.At
		case c12KDispatch:
			pendingDispatch[e.Msg] = e
			if e.Msg >= 0 {
				userDispatched++
			}
		case c12KRecvEnter:
			inHandler++
			lastHandled, lastHandledWhat = e.At, fmt.Sprintf("Receive-enter(msg %d)", e.Msg)
			if d := pendingDispatch[e.Msg]; d != nil {
				lastEnteredDispatch = d
			}
		case c12KRecvExit:
			inHandler--
			lastHandled, lastHandledWhat = e.At, fmt.Sprintf("Receive-exit(msg %d)", e.Msg)
		case c12KPauseConfirmed:
			paused = true
		case c12KResumeSent:
			paused = false
		case c12KSuspendObserved:
			suspended = true
		case c12KReinstateIssued:
			// Reinstate resumes passivation even when the user had paused it before the
			// failure; the specification is silent on that interplay: not judged
			suspended, paused = false, false
		case c12KStopIssued:
		case c12KStopReturned:
			stopReturned = true
		case c12KCleanup:
			cleanup = true
		case c12KTry:
			lastTry, tryDispatch, userDispatchedAtTry = e, lastEnteredDispatch, userDispatched
			pausedAtTry, suspendedAtTry = paused, suspended
		case c12KPostEnter:
			posts++
			if e.Path != "passivation" {
				continue
			}
			res.classes = append(res.classes, "passivated")
			// "never while stopping": a Shutdown call that is merely in progress may still
			// lose the race for the actor to the passivation (it then does nothing); the stop
			// has taken effect once its PostStop has started or the call has returned
			if posts > 1 || cleanup || stopReturned {
				viol(false, c12FpTwice, "the actor had been stopped (PostStop ran %d time(s) before, stop call returned: %v) and was passivated afterwards: PostStop ran again at ts %d", posts-1, cleanup || stopReturned, e.TS)
				continue
			}
			switch pr.Strat {
			case c12StratLongLived:
				viol(false, "longlived-passivated", "an actor spawned WithLongLived was passivated at ts %d", e.TS)
				continue
			}
			// paused / suspended are judged at the decision (entry of tryPassivation), not at
			// PostStop: a pause or suspension that becomes visible between the decision and
			// PostStop is a concurrent event that any implementation may order after the
			// passivation (seen: message-count N=1 whose Nth message is the failing one)
			if lastTry != nil && pausedAtTry && paused {
				viol(false, "passivated-while-paused", "passivated at ts %d (decided at ts %d) although PausePassivation had been handled (marker confirmed) before the decision and no ResumePassivation had been sent", e.TS, lastTry.TS)
			}
			if lastTry != nil && suspendedAtTry && suspended {
				viol(false, "passivated-while-suspended", "passivated at ts %d (decided at ts %d) while the actor was suspended (IsSuspended observed before the decision, Reinstate not yet issued)", e.TS, lastTry.TS)
			}
			switch pr.Strat {
			case c12StratTime:
				if inHandler > 0 {
					viol(false, c12FpMidHandler, "T=%v: passivated at t=%v (ts %d) while a handler was running (%s at t=%v)", T, e.At, e.TS, lastHandledWhat, lastHandled)
				} else if lastHandled >= 0 && e.At-lastHandled < T-c12Slack-c12Margin {
					viol(false, c12FpWithinT, "T=%v: passivated at t=%v (ts %d) only %v after %s", T, e.At, e.TS, e.At-lastHandled, lastHandledWhat)
				}
				// the framework's own rule: when the manager decides, the activity stamp of
				// every message whose handler had been entered is at least T - slack old
				if lastTry != nil {
					basis, what := spawnAt, "the spawn"
					if tryDispatch != nil {
						basis, what = tryDispatch.Stamp, fmt.Sprintf("the activity stamp of msg %d (handler entered before the decision)", tryDispatch.Msg)
					}
					if lastTry.At-basis < T-c12Slack-20*time.Millisecond {
						viol(true, "passivation-decided-before-deadline", "T=%v: tryPassivation entered at t=%v, only %v after %s", T, lastTry.At, lastTry.At-basis, what)
					}
				}
			case c12StratCount:
				if lastTry != nil && userDispatchedAtTry < pr.N {
					viol(false, "count-passivated-early", "N=%d: the manager decided to passivate (tryPassivation at ts %d) when only %d user message(s) had been dispatched since the actor was registered", pr.N, lastTry.TS, userDispatchedAtTry)
				}
			}
		}
	}
	// a passivated actor's PostStop ran exactly once (the final cleanup Shutdown must not add one)
	for _, e := range evs {
		if e.K == c12KPostEnter && e.Path == "passivation" && posts != 1 {
			already := false
			for _, v := range res.viols {
				if v.fp == c12FpTwice {
					already = true
				}
			}
			if !already {
				viol(false, "passivated-poststop-count", "the actor was passivated and PostStop ran %d times", posts)
			}
			break
		}
	}
}

// ---- case ---------------------------------------------------------------------------------------

func c12Exec(x *vfkit.X, c c12Case) {
	c12Mu.Lock()
	if !c12Sys.Running() {
		// the system stopped itself (a panic in one of its system actors; the cause seen
		// while this check was built was repaired by 4a14b27): replace it, or every later
		// case would silently run on a dead system
		x.Class("system_rebuilt_after_it_stopped_itself")
		if err := c12NewSystem(); err != nil {
			c12Mu.Unlock()
			panic(fmt.Sprintf("cannot rebuild the actor system: %v", err))
		}
	}
	sys, helper := c12Sys, c12Helper
	c12Mu.Unlock()

	results := make([]*c12Res, len(c.Progs))
	var wg sync.WaitGroup
	for i, pr := range c.Progs {
		wg.Add(1)
		go func() {
			defer wg.Done()
			results[i] = c12Run(sys, helper, pr)
		}()
	}
	wg.Wait()

	var known *c12Viol
	for i, r := range results {
		for _, cl := range r.classes {
			x.Class(cl)
		}
		x.Class(fmt.Sprintf("strategy_%d", c.Progs[i].Strat))
		if r.nontrivial {
			x.NonTrivial()
		}
		if r.dead {
			x.Class("inconclusive_system_stopped_itself")
			continue
		}
		for _, v := range r.viols {
			v := v
			if x.Known(v.fp) {
				x.Class("known_" + v.fp)
				known = &v
				continue
			}
			if v.timing {
				// three strikes: the identical program must show the same verdict in two more
				// executions of its own before a clock-based verdict is reported
				strikes := 1
				for k := 0; k < 2; k++ {
					rr := c12Run(sys, helper, c.Progs[i])
					for _, vv := range rr.viols {
						if vv.fp == v.fp {
							strikes++
							break
						}
					}
				}
				if strikes < 3 {
					x.Class("timing_verdict_not_reproduced")
					continue
				}
			}
			for _, l := range r.log {
				x.Logf("prog %d: %s", i, l)
			}
			x.Failf(v.fp, "program %d (%+v): %s", i, c.Progs[i], v.msg)
		}
	}
	if known != nil {
		x.Failf(known.fp, "listed finding observed (every other clause held): %s", known.msg)
	}
}

var _ = errors.New

func TestVF_C12_passivation(t *testing.T) {
	c12Start(t)
	vfkit.Run(t, vfkit.Spec[c12Case]{
		ID: "C12", Unit: "passivation",
		Rule: "a case = 10 programs run concurrently on one real actor system; a program = one actor with a time-based (T in 400/600/800 ms), message-count (N in 1..5) or long-lived strategy and 1..6 steps (message, burst, PausePassivation, ResumePassivation, failing message -> suspended -> Reinstate, failing message with a Resume directive, external stop) separated by gaps drawn around the deadline (2..125% of T), handler durations 0 / 1ms / 30% / 60% / 150% of T; non-trivial = a message arrives within +-25% of the deadline, or a pause/suspension window covers a deadline, or a handler/turn outlasts T; distinct = distinct cases",
		Gen:  c12Gen, Exec: c12Exec,
		ReplayReps: 3,
	})
}

//go:build verif

package actor

import "time"

// Observation hooks, called through prologues injected by the build overlay.
//
// c12DispatchHook: top of (*PID).handleReceived, i.e. after the message was dequeued
// and before the framework stamps the activity time (markActivity) and counts the
// message (recordProcessedMessage); now is the activity stamp the framework is about
// to store (taken once per turn by runTurn).
//
// c12TryHook: top of (*PID).tryPassivation, i.e. right after the passivation manager
// decided (deadline expired / message threshold reached) to passivate the actor.
var (
	c12DispatchHook func(pid *PID, received *ReceiveContext, now time.Time)
	c12TryHook      func(pid *PID)
)

//go:build verif

package actor

import (
	"context"
	"encoding/json"
	"fmt"
	"strings"
	"sync"
	"sync/atomic"
	"testing"
	"time"

	"pgregory.net/rapid"

	"github.com/tochemey/goakt/v4/internal/commands"
	"github.com/tochemey/goakt/v4/internal/vfkit"
	"github.com/tochemey/goakt/v4/internal/vfsched"
	"github.com/tochemey/goakt/v4/log"
	"github.com/tochemey/goakt/v4/test/data/testpb"
)

// ---------------------------------------------------------------------------
// C42: reliable point-to-point delivery is ordered and gap-free under message
// faults. A real producer endpoint / consumer endpoint pair (AsReliableProducer /
// AsReliableConsumer) runs on a real ActorSystem; the generated fault plan is
// applied where the two controllers send to each other (prologues injected into
// producerController.tell / consumerController.tell). Everything the consumer
// controller presents to its endpoint is recorded on the controller's own turn
// and judged against the production order.
// ---------------------------------------------------------------------------

// decisions of a fault plan entry
const (
	c42Deliver = 0
	c42Drop    = 1
	c42Dup     = 2
	c42Hold    = 10 // c42Hold+k: hold back until k later messages of the same direction have passed
)

// cross-controller message types
const (
	c42TRegister = iota // consumer controller -> producer controller
	c42TRequest
	c42TAck
	c42TRegAck // producer controller -> consumer controller
	c42TSeq
	c42NTypes
)

var c42TypeNames = [c42NTypes]string{"RegisterConsumer", "Request", "Ack", "RegistrationAck", "SequencedMessage"}

const (
	c42StallLimit = 300              // fault-free controller messages without progress
	c42WallCap    = 25 * time.Second // per execution; exhausting it is inconclusive
)

type c42Plan struct {
	Register []int `json:"register"`
	Request  []int `json:"request"`
	Ack      []int `json:"ack"`
	RegAck   []int `json:"reg_ack"`
	Seq      []int `json:"seq"`
}

func (p *c42Plan) of(typ int) []int {
	switch typ {
	case c42TRegister:
		return p.Register
	case c42TRequest:
		return p.Request
	case c42TAck:
		return p.Ack
	case c42TRegAck:
		return p.RegAck
	default:
		return p.Seq
	}
}

type c42Case struct {
	N             int     `json:"n"`
	Window        int     `json:"window"`
	Chunking      bool    `json:"chunking"`
	Sizes         []int   `json:"sizes"`      // content bytes of message i
	ResendMs      int     `json:"resend_ms"`  // consumer controller tick
	RetryMs       int     `json:"retry_ms"`   // producer controller tick
	FeedMs        []int   `json:"feed_ms"`    // pause before message i is handed to the producer endpoint
	ConfirmMs     []int   `json:"confirm_ms"` // processing time of message i at the consumer endpoint
	AckMs         []int   `json:"ack_ms"`     // time the producer endpoint takes between Stored and StoredAck for message i (retention handoff)
	Skip          []int   `json:"skip"`       // number of presentations of message i the consumer leaves unconfirmed
	ConsumerFirst bool    `json:"consumer_first"`
	Horizon       int     `json:"horizon"` // faults apply to the first Horizon messages of each direction
	Plan          c42Plan `json:"plan"`
	NoiseSeed     uint64  `json:"noise_seed"`
	NoiseProb     float64 `json:"noise_prob"`
	NoiseSleep    int     `json:"noise_sleep"`
}

func c42GenDecision(t *rapid.T, label string) int {
	switch rapid.IntRange(0, 9).Draw(t, label) {
	case 0, 1, 2, 3:
		return c42Drop
	case 4, 5, 6:
		return c42Dup
	default:
		return c42Hold + rapid.IntRange(1, 6).Draw(t, label+"_k")
	}
}

func c42Gen(t *rapid.T) c42Case {
	var c c42Case
	maxN := 12
	if vfkit.Thorough() {
		maxN = 30
	}
	c.N = rapid.OneOf(rapid.IntRange(1, 6), rapid.IntRange(1, maxN)).Draw(t, "n")
	c.Window = rapid.SampledFrom([]int{1, 2, 5, 50}).Draw(t, "window")
	c.Chunking = rapid.IntRange(0, 2).Draw(t, "chunking") == 0
	maxChunks := 1
	if c.Chunking {
		maxChunks = min(c.Window, 5)
	}
	for i := 0; i < c.N; i++ {
		size := rapid.IntRange(1, 64).Draw(t, "size")
		if maxChunks > 1 && rapid.IntRange(0, 2).Draw(t, "big") == 0 {
			// frame = content + a small header; 1 100 bytes per chunk keeps the count exact
			chunks := rapid.IntRange(2, maxChunks).Draw(t, "chunks")
			size = (chunks-1)*1024 + 200
		}
		c.Sizes = append(c.Sizes, size)
	}
	c.ResendMs = rapid.IntRange(10, 30).Draw(t, "resend_ms")
	c.RetryMs = rapid.IntRange(10, 30).Draw(t, "retry_ms")
	feedMode := rapid.IntRange(0, 3).Draw(t, "feed_mode")
	confMode := rapid.IntRange(0, 3).Draw(t, "confirm_mode")
	ackMode := rapid.IntRange(0, 1).Draw(t, "ack_mode")
	for i := 0; i < c.N; i++ {
		f, d, s, a := 0, 0, 0, 0
		switch feedMode {
		case 1:
			f = rapid.IntRange(0, 3).Draw(t, "feed_ms")
		case 2:
			f = rapid.SampledFrom([]int{0, 0, 0, 1, 5, 20}).Draw(t, "feed_ms")
		}
		switch confMode {
		case 1:
			d = rapid.IntRange(0, 3).Draw(t, "confirm_ms")
		case 2:
			d = rapid.SampledFrom([]int{0, 0, 0, 1, 5, 20}).Draw(t, "confirm_ms")
		}
		if rapid.IntRange(0, 7).Draw(t, "skip") == 0 {
			s = rapid.IntRange(1, 2).Draw(t, "skip_n")
		}
		if ackMode == 1 {
			a = rapid.SampledFrom([]int{0, 0, 1, 5, 15, 30}).Draw(t, "ack_ms")
		}
		c.FeedMs, c.ConfirmMs, c.Skip, c.AckMs = append(c.FeedMs, f), append(c.ConfirmMs, d), append(c.Skip, s), append(c.AckMs, a)
	}
	c.ConsumerFirst = rapid.Bool().Draw(t, "consumer_first")
	c.Horizon = rapid.IntRange(30, 120).Draw(t, "horizon")

	// fault plan: 2..15 faults. One SequencedMessage drop among the first N and one
	// Request/Ack fault at an early index are placed by construction (the
	// non-triviality rule); the rest is spread over all five message types.
	budget := rapid.IntRange(2, 15).Draw(t, "faults")
	lens := [c42NTypes]int{6, 8, 6, 6, c.N + 8}
	plans := [c42NTypes][]int{}
	for ty := 0; ty < c42NTypes; ty++ {
		plans[ty] = make([]int, lens[ty])
	}
	plans[c42TSeq][rapid.IntRange(0, c.N-1).Draw(t, "seq_drop_at")] = c42Drop
	if rapid.IntRange(0, 3).Draw(t, "ack_not_request") == 0 {
		plans[c42TAck][rapid.IntRange(0, 1).Draw(t, "ack_at")] = rapid.SampledFrom([]int{c42Drop, c42Dup}).Draw(t, "ack_fault")
	} else {
		plans[c42TRequest][rapid.IntRange(0, 3).Draw(t, "req_at")] = rapid.SampledFrom([]int{c42Drop, c42Dup}).Draw(t, "req_fault")
	}
	for i := 2; i < budget; i++ {
		ty := rapid.SampledFrom([]int{c42TRegister, c42TRequest, c42TRequest, c42TAck, c42TRegAck, c42TSeq, c42TSeq, c42TSeq}).Draw(t, "fault_type")
		at := rapid.IntRange(0, lens[ty]-1).Draw(t, "fault_at")
		if plans[ty][at] == c42Deliver {
			plans[ty][at] = c42GenDecision(t, "fault")
		}
	}
	trim := func(p []int) []int {
		for len(p) > 0 && p[len(p)-1] == c42Deliver {
			p = p[:len(p)-1]
		}
		return p
	}
	c.Plan = c42Plan{Register: trim(plans[c42TRegister]), Request: trim(plans[c42TRequest]), Ack: trim(plans[c42TAck]), RegAck: trim(plans[c42TRegAck]), Seq: trim(plans[c42TSeq])}

	c.NoiseSeed = rapid.Uint64().Draw(t, "noise_seed")
	c.NoiseProb = rapid.SampledFrom([]float64{0, 0, 0.01, 0.05, 0.2}).Draw(t, "noise_prob")
	c.NoiseSleep = rapid.SampledFrom([]int{0, 50, 300}).Draw(t, "noise_sleep")
	return c
}

// ---------------------------------------------------------------------------
// per-execution harness state

type c42Held struct {
	self, to *PID
	msg      any
	left     int
	typ      int
}

type c42Dir struct {
	count int
	held  []c42Held
}

type c42Violation struct {
	fp, msg string
}

type c42Run struct {
	c        *c42Case
	prodName string
	consName string
	ids      []string
	contents []string

	mu          sync.Mutex
	hist        []string
	dirs        [2]c42Dir // 0: producer controller -> consumer controller, 1: the reverse
	typeCount   [c42NTypes]int
	applied     [c42NTypes][3]int // drop, dup, hold actually applied per type
	released    int
	outstanding [2]int // controller->endpoint messages not yet handled (0 producer endpoint, 1 consumer endpoint)
	quiet       int    // fault-free controller messages since the last progress
	backlogged  int    // fault-free controller messages not counted because a controller mailbox was backlogged
	fedSeen     int
	restarted   bool

	// consumer-controller side history
	presented   int   // number of distinct messages presented so far
	curSeq      int64 // seq of the latest first presentation
	anyChunked  bool
	ctrlConf    map[int64]bool // consumer controller handled Confirmed(seq) from its endpoint
	represented int
	presCount   map[int64]int // presentations per seq, as received by the consumer endpoint
	consConf    map[string]bool
	storedSeq   map[string]int64
	presSeq     map[string]int64 // seq under which message id was first presented
	prodConf    map[string]int
	prodConfN   int

	viol    *c42Violation
	failCh  chan struct{}
	stallCh chan struct{}
	doneCh  chan struct{}
	stalled bool
	done    bool
}

var c42Runs sync.Map // endpoint name -> *c42Run

func (r *c42Run) logf(format string, args ...any) {
	if len(r.hist) < 1500 {
		r.hist = append(r.hist, fmt.Sprintf(format, args...))
	}
}

// fail records the first violation (mu held).
func (r *c42Run) fail(fp, format string, args ...any) {
	if r.viol != nil {
		return
	}
	r.viol = &c42Violation{fp: fp, msg: fmt.Sprintf(format, args...)}
	r.logf("VIOLATION %s: %s", fp, r.viol.msg)
	close(r.failCh)
}

func (r *c42Run) progress() { r.quiet = 0 }

// quietStep counts one fault-free controller message (mu held). Messages sent
// while a controller mailbox is backlogged are not counted: on an overloaded
// machine a controller that cannot keep up with its peer's ticks answers stale
// registrations for ever, which is starvation, not a protocol stall.
func (r *c42Run) quietStep(self, to *PID) {
	if r.done || r.stalled {
		return
	}
	if self.mailbox.Len() > 2 || to.mailbox.Len() > 2 {
		r.backlogged++
		return
	}
	h := r.c.Horizon
	if r.dirs[0].count <= h || r.dirs[1].count <= h || len(r.dirs[0].held)+len(r.dirs[1].held) > 0 {
		return // the fault budget is not spent yet
	}
	if r.fedSeen < r.c.N || r.outstanding[0] > 0 || r.outstanding[1] > 0 {
		return // an endpoint still has work in its hands
	}
	r.quiet++
	if r.quiet >= c42StallLimit {
		r.stalled = true
		r.logf("STALL: %d fault-free controller messages without progress", r.quiet)
		close(r.stallCh)
	}
}

func c42Classify(message any) int {
	switch message.(type) {
	case *commands.RegisterConsumer:
		return c42TRegister
	case *commands.Request:
		return c42TRequest
	case *commands.Ack:
		return c42TAck
	case *commands.RegistrationAck:
		return c42TRegAck
	case *commands.SequencedMessage:
		return c42TSeq
	}
	return -1
}

func c42Describe(message any) string {
	switch m := message.(type) {
	case *commands.RegisterConsumer:
		return "RegisterConsumer(" + m.Nonce()[:4] + ")"
	case *commands.RegistrationAck:
		return fmt.Sprintf("RegistrationAck(next=%d,%s)", m.NextSeq(), m.Nonce()[:4])
	case *commands.Request:
		return fmt.Sprintf("Request(conf=%d,upTo=%d,timeout=%v,%s)", m.ConfirmedSeq(), m.RequestUpToSeq(), m.ViaTimeout(), m.RegistrationNonce()[:4])
	case *commands.Ack:
		return fmt.Sprintf("Ack(conf=%d,%s)", m.ConfirmedSeq(), m.RegistrationNonce()[:4])
	case *commands.SequencedMessage:
		return fmt.Sprintf("Sequenced(seq=%d,id=%s,chunk=%v/%v/%v)", m.Seq(), m.MessageID(), m.Chunked(), m.FirstChunk(), m.LastChunk())
	case *Delivery:
		return fmt.Sprintf("Delivery(seq=%d,id=%s)", m.Seq(), m.MessageID())
	case *RequestNext:
		return "RequestNext(" + m.Token()[:4] + ")"
	case *Stored:
		return fmt.Sprintf("Stored(seq=%d,id=%s)", m.Seq(), m.MessageID())
	case *DeliveryConfirmed:
		return fmt.Sprintf("DeliveryConfirmed(seq=%d,id=%s)", m.Seq(), m.MessageID())
	}
	return fmt.Sprintf("%T", message)
}

func c42RunOf(ctrl any) *c42Run {
	var ep *PID
	switch c := ctrl.(type) {
	case *producerController:
		ep = c.producer
	case *consumerController:
		ep = c.consumer
	}
	if ep == nil {
		return nil
	}
	if v, ok := c42Runs.Load(ep.Name()); ok {
		return v.(*c42Run)
	}
	return nil
}

func c42Tell(role int, ctrl any, self, to *PID, message any) bool {
	r := c42RunOf(ctrl)
	if r == nil {
		return false
	}
	return r.tell(role, ctrl, self, to, message)
}

func c42Obs(kind int, ctrl any, sender *PID, message any) {
	r := c42RunOf(ctrl)
	if r == nil {
		return
	}
	r.mu.Lock()
	defer r.mu.Unlock()
	switch kind {
	case 1: // consumerController.handleConfirmed entry
		cc := ctrl.(*consumerController)
		conf := message.(*Confirmed)
		if sender != nil && sender.Equals(cc.consumer) {
			if !r.ctrlConf[conf.Seq()] {
				r.logf("CC   handles Confirmed(seq=%d,id=%s)", conf.Seq(), conf.MessageID())
			}
			r.ctrlConf[conf.Seq()] = true
		}
	case 2: // producerController.terminate
		pc := ctrl.(*producerController)
		if !pc.failed {
			r.fail("flow-terminated-producer-controller", "the producer controller failed terminally under message faults only: %v", message)
		}
	case 3: // consumerController.fail
		cc := ctrl.(*consumerController)
		if !cc.failed {
			r.fail("flow-terminated-consumer-controller", "the consumer controller failed terminally under message faults only: %v", message)
		}
	case 4:
		if cc := ctrl.(*consumerController); cc.generation > 1 {
			r.restarted = true
		}
	}
}

func (r *c42Run) tell(role int, ctrl any, self, to *PID, message any) bool {
	ctx := context.Background()
	typ := c42Classify(message)
	if typ < 0 {
		// controller -> its own endpoint: never faulted, only observed
		r.mu.Lock()
		r.outstanding[role]++
		if pc, ok := ctrl.(*producerController); ok && pc.generation > 1 {
			r.restarted = true
		}
		if d, ok := message.(*Delivery); ok {
			r.onPresent(d)
		}
		r.mu.Unlock()
		if err := self.Tell(ctx, to, message); err != nil {
			r.mu.Lock()
			r.outstanding[role]--
			r.mu.Unlock()
		}
		return true
	}

	r.mu.Lock()
	d := &r.dirs[role]
	d.count++
	idx := r.typeCount[typ]
	r.typeCount[typ]++
	dec := c42Deliver
	if plan := r.c.Plan.of(typ); d.count <= r.c.Horizon && idx < len(plan) {
		dec = plan[idx]
	}
	var rel []c42Held
	keep := d.held[:0]
	for _, h := range d.held {
		h.left--
		if h.left <= 0 {
			rel = append(rel, h)
		} else {
			keep = append(keep, h)
		}
	}
	d.held = keep
	sends := 1
	what := ""
	switch {
	case dec == c42Drop:
		sends, what = 0, " DROPPED"
		r.applied[typ][0]++
	case dec == c42Dup:
		sends, what = 2, " DUPLICATED"
		r.applied[typ][1]++
	case dec >= c42Hold:
		sends, what = 0, fmt.Sprintf(" HELD(%d)", dec-c42Hold)
		r.applied[typ][2]++
		d.held = append(d.held, c42Held{self: self, to: to, msg: message, left: dec - c42Hold, typ: typ})
	}
	side := "PC->CC"
	if role == 1 {
		side = "CC->PC"
	}
	r.logf("%s #%d %s[%d]%s", side, d.count, c42Describe(message), idx, what)
	for _, h := range rel {
		r.released++
		r.logf("%s      released %s", side, c42Describe(h.msg))
	}
	if dec == c42Deliver {
		r.quietStep(self, to)
	}
	r.mu.Unlock()

	for i := 0; i < sends; i++ {
		_ = self.Tell(ctx, to, message)
	}
	for _, h := range rel {
		_ = h.self.Tell(ctx, h.to, h.msg)
	}
	return true
}

// onPresent judges one Delivery the consumer controller hands to its endpoint
// (called on the controller's turn, mu held).
func (r *c42Run) onPresent(d *Delivery) {
	seq, id := d.Seq(), d.MessageID()
	switch {
	case seq == r.curSeq && r.presented > 0:
		r.represented++
		r.logf("CC   re-presents Delivery(seq=%d,id=%s)", seq, id)
		if r.restarted {
			return
		}
		if r.ctrlConf[seq] {
			r.fail("represented-after-confirmed", "Delivery seq=%d id=%s was presented again after the consumer controller had handled the consumer's Confirmed for it", seq, id)
		}
	case seq > r.curSeq:
		k := r.presented
		r.logf("CC   presents Delivery(seq=%d,id=%s) [message #%d]", seq, id, k)
		if r.restarted {
			r.presented, r.curSeq = k+1, seq
			return
		}
		if k >= len(r.ids) {
			r.fail("presented-unproduced-message", "Delivery seq=%d id=%s presented after all %d produced messages", seq, id, len(r.ids))
			return
		}
		if id != r.ids[k] {
			fp := "gap-or-reorder-in-first-presentations"
			r.fail(fp, "first presentation #%d is id=%s seq=%d, the production order requires id=%s", k, id, seq, r.ids[k])
			return
		}
		// Stored may not have been handled by the producer endpoint yet: a timeout
		// Request makes the producer controller resend entries that are stored but
		// still waiting for StoredAck. The two sequences are compared whenever both are known.
		r.presSeq[id] = seq
		if stored, ok := r.storedSeq[id]; ok && stored != seq {
			r.fail("delivery-seq-differs-from-stored-seq", "Delivery id=%s carries seq=%d, the producer was told Stored seq=%d", id, seq, stored)
			return
		}
		if r.c.Chunking && len(r.contents[k]) > 900 {
			r.anyChunked = true
		}
		if !r.anyChunked && seq != int64(k+1) {
			r.fail("gap-or-reorder-in-first-presentations", "first presentation #%d has seq=%d (no chunked message so far), want %d", k, seq, k+1)
			return
		}
		if p, ok := d.Payload().(*testpb.Reply); !ok || p.GetContent() != r.contents[k] {
			r.fail("payload-differs-from-produced", "Delivery seq=%d id=%s carries a payload different from the produced one (%T)", seq, id, d.Payload())
			return
		}
		r.presented, r.curSeq = k+1, seq
		r.progress()
	default:
		r.logf("CC   presents OLD Delivery(seq=%d,id=%s), latest is %d", seq, id, r.curSeq)
		if !r.restarted {
			r.fail("older-seq-presented-again", "Delivery seq=%d id=%s presented while seq=%d was already presented: only the single in-flight message may be re-presented", seq, id, r.curSeq)
		}
	}
}

// ---------------------------------------------------------------------------
// endpoints written to the documented contracts (RELIABLE_DELIVERY.md 5.2 / 5.3)

type c42Submit struct{ idx int }

type c42Producer struct {
	r            *c42Run
	pending      []int
	request      *RequestNext
	ctrl         *PID
	lastToken    string
	lastProduced *Produced
}

func (p *c42Producer) PreStart(*Context) error { return nil }
func (p *c42Producer) PostStop(*Context) error { return nil }

func (p *c42Producer) Receive(ctx *ReceiveContext) {
	r := p.r
	switch msg := ctx.Message().(type) {
	case *c42Submit:
		p.pending = append(p.pending, msg.idx)
		r.mu.Lock()
		r.fedSeen++
		r.progress()
		r.mu.Unlock()
		p.flush(ctx)
	case *RequestNext:
		defer r.localDone(0)
		if !msg.IsAuthorizedFor(ctx.Self(), ctx.Sender()) {
			return
		}
		p.ctrl = ctx.Sender()
		if msg.Token() == p.lastToken && p.lastProduced != nil {
			ctx.Tell(p.ctrl, p.lastProduced) // idempotent answer to a retried grant
			return
		}
		p.request = msg
		p.flush(ctx)
	case *Stored:
		defer r.localDone(0)
		if !msg.IsAuthorizedFor(ctx.Self(), ctx.Sender()) {
			return
		}
		if len(p.pending) > 0 && r.ids[p.pending[0]] == msg.MessageID() {
			if i := p.pending[0]; i < len(r.c.AckMs) && r.c.AckMs[i] > 0 {
				time.Sleep(time.Duration(r.c.AckMs[i]) * time.Millisecond) // durably removing the item takes a while
			}
			p.pending = p.pending[1:] // retention handoff: the head is removed on Stored
			r.mu.Lock()
			r.storedSeq[msg.MessageID()] = msg.Seq()
			r.logf("P    Stored(seq=%d,id=%s)", msg.Seq(), msg.MessageID())
			if ps, ok := r.presSeq[msg.MessageID()]; ok && ps != msg.Seq() && !r.restarted {
				r.fail("delivery-seq-differs-from-stored-seq", "Stored id=%s says seq=%d, the consumer was handed the message as Delivery seq=%d", msg.MessageID(), msg.Seq(), ps)
			}
			r.progress()
			r.mu.Unlock()
		}
		ack, err := NewStoredAck(msg)
		if err != nil {
			ctx.Err(err)
			return
		}
		ctx.Tell(ctx.Sender(), ack)
	case *DeliveryConfirmed:
		defer r.localDone(0)
		if !msg.IsAuthorizedFor(ctx.Self(), ctx.Sender()) {
			return
		}
		r.onDeliveryConfirmed(msg)
	}
}

func (p *c42Producer) flush(ctx *ReceiveContext) {
	if p.request == nil || len(p.pending) == 0 {
		return
	}
	idx := p.pending[0]
	produced, err := NewProduced(p.request, p.r.ids[idx], &testpb.Reply{Content: p.r.contents[idx]})
	if err != nil {
		ctx.Err(err)
		return
	}
	p.lastToken, p.lastProduced, p.request = p.request.Token(), produced, nil
	ctx.Tell(p.ctrl, produced)
}

func (r *c42Run) localDone(role int) {
	r.mu.Lock()
	r.outstanding[role]--
	r.mu.Unlock()
}

func (r *c42Run) onDeliveryConfirmed(msg *DeliveryConfirmed) {
	r.mu.Lock()
	defer r.mu.Unlock()
	id := msg.MessageID()
	r.logf("P    DeliveryConfirmed(seq=%d,id=%s)", msg.Seq(), id)
	if r.restarted {
		return
	}
	if !r.consConf[id] {
		r.fail("producer-told-confirmed-before-consumer-confirmed", "the producer endpoint was told DeliveryConfirmed id=%s seq=%d but the consumer endpoint has not sent Confirmed for it", id, msg.Seq())
		return
	}
	if s, ok := r.storedSeq[id]; !ok || s != msg.Seq() {
		r.fail("confirmation-seq-differs-from-stored-seq", "DeliveryConfirmed id=%s seq=%d, Stored said seq=%d (known=%v)", id, msg.Seq(), s, ok)
		return
	}
	if r.prodConf[id] == 0 {
		r.prodConfN++
		r.progress()
	}
	r.prodConf[id]++
	if r.prodConfN == r.c.N && !r.done {
		r.done = true
		close(r.doneCh)
	}
}

type c42Consumer struct {
	r     *c42Run
	index map[string]int
}

func (c *c42Consumer) PreStart(*Context) error { return nil }
func (c *c42Consumer) PostStop(*Context) error { return nil }

func (c *c42Consumer) Receive(ctx *ReceiveContext) {
	msg, ok := ctx.Message().(*Delivery)
	if !ok {
		return
	}
	r := c.r
	defer r.localDone(1)
	if !msg.IsAuthorizedFor(ctx.Self(), ctx.Sender()) {
		return
	}
	i, known := c.index[msg.MessageID()]
	r.mu.Lock()
	r.presCount[msg.Seq()]++
	n := r.presCount[msg.Seq()]
	r.mu.Unlock()
	if !known {
		return
	}
	if d := r.c.ConfirmMs[i]; d > 0 {
		time.Sleep(time.Duration(d) * time.Millisecond)
	}
	if n <= r.c.Skip[i] {
		r.mu.Lock()
		r.logf("C    leaves presentation %d of seq=%d unconfirmed", n, msg.Seq())
		r.mu.Unlock()
		return // processing failed: the controller must present the message again
	}
	confirmed, err := NewConfirmed(msg)
	if err != nil {
		ctx.Err(err)
		return
	}
	r.mu.Lock()
	if !r.consConf[msg.MessageID()] {
		r.logf("C    sends Confirmed(seq=%d,id=%s)", msg.Seq(), msg.MessageID())
		r.progress()
	}
	r.consConf[msg.MessageID()] = true
	r.mu.Unlock()
	ctx.Tell(ctx.Sender(), confirmed)
}

// ---------------------------------------------------------------------------
// execution

var (
	c42Sys     *actorSystem
	c42Counter atomic.Int64
)

func c42Content(i, size int) string {
	head := fmt.Sprintf("m%03d|", i)
	if size <= len(head) {
		return head[:max(size, 1)]
	}
	return head + strings.Repeat(string(rune('a'+i%26)), size-len(head))
}

const (
	c42Completed = iota
	c42Stalled
	c42Violated
	c42Inconclusive
)

func c42RunOnce(x *vfkit.X, c *c42Case, attempt int) (*c42Run, int) {
	ctx := context.Background()
	n := c42Counter.Add(1)
	r := &c42Run{
		c: c, prodName: fmt.Sprintf("c42-producer-%d", n), consName: fmt.Sprintf("c42-consumer-%d", n),
		ctrlConf: map[int64]bool{}, presCount: map[int64]int{}, consConf: map[string]bool{}, storedSeq: map[string]int64{}, presSeq: map[string]int64{}, prodConf: map[string]int{},
		failCh: make(chan struct{}), stallCh: make(chan struct{}), doneCh: make(chan struct{}),
	}
	index := map[string]int{}
	for i := 0; i < c.N; i++ {
		r.ids = append(r.ids, fmt.Sprintf("msg-%d-%d", n, i))
		r.contents = append(r.contents, c42Content(i, c.Sizes[i]))
		index[r.ids[i]] = i
	}
	c42Runs.Store(r.prodName, r)
	c42Runs.Store(r.consName, r)
	vfsched.SetNoise(c.NoiseSeed+uint64(attempt), c.NoiseProb, c.NoiseSleep)
	defer vfsched.SetNoise(0, 0, 0)

	popts := []ReliableProducerOption{WithReliableRetryInterval(time.Duration(c.RetryMs) * time.Millisecond), WithReliableDeliveryConfirmation()}
	if c.Chunking {
		popts = append(popts, WithReliableChunking(MinReliableChunkSize))
	}
	copts := []ReliableConsumerOption{WithReliableFlowControlWindow(c.Window), WithReliableResendInterval(time.Duration(c.ResendMs) * time.Millisecond)}
	var producer, consumer *PID
	var err error
	spawnP := func() {
		producer, err = c42Sys.Spawn(ctx, r.prodName, &c42Producer{r: r}, AsReliableProducer(r.consName, popts...))
	}
	spawnC := func() {
		consumer, err = c42Sys.Spawn(ctx, r.consName, &c42Consumer{r: r, index: index}, AsReliableConsumer(r.prodName, copts...))
	}
	first, second := spawnP, spawnC
	if c.ConsumerFirst {
		first, second = spawnC, spawnP
	}
	first()
	if err == nil {
		second()
	}
	defer func() {
		if producer != nil {
			_ = producer.Shutdown(ctx)
		}
		if consumer != nil {
			_ = consumer.Shutdown(ctx)
		}
		c42Runs.Delete(r.prodName)
		c42Runs.Delete(r.consName)
	}()
	if err != nil {
		panic(fmt.Sprintf("c42: spawning the endpoints failed: %v", err))
	}

	stopFeed := make(chan struct{})
	var feeder sync.WaitGroup
	feeder.Add(1)
	go func() {
		defer feeder.Done()
		for i := 0; i < c.N; i++ {
			if d := c.FeedMs[i]; d > 0 {
				select {
				case <-time.After(time.Duration(d) * time.Millisecond):
				case <-stopFeed:
					return
				}
			}
			_ = Tell(ctx, producer, &c42Submit{idx: i})
		}
	}()
	outcome := c42Inconclusive
	timer := time.NewTimer(c42WallCap)
	select {
	case <-r.failCh:
		outcome = c42Violated
	case <-r.doneCh:
		outcome = c42Completed
	case <-r.stallCh:
		outcome = c42Stalled
	case <-timer.C:
	}
	timer.Stop()
	close(stopFeed)
	feeder.Wait()
	if outcome == c42Completed {
		// let the tail of the protocol run (final Ack, late duplicates) and look for late violations
		select {
		case <-r.failCh:
			outcome = c42Violated
		case <-time.After(time.Duration(2*c.ResendMs) * time.Millisecond):
		}
	}
	return r, outcome
}

func c42Exec(x *vfkit.X, c c42Case) {
	// domain guard: a chunked message must fit in the window (otherwise the flow fails by contract)
	chunked := 0
	for i := 0; i < c.N; i++ {
		frame, err := c42Sys.getRemoting().Serializer(&testpb.Reply{}).Serialize(&testpb.Reply{Content: c42Content(i, c.Sizes[i])})
		if err != nil {
			panic(err)
		}
		if c.Chunking && len(frame) > MinReliableChunkSize {
			chunked++
			if (len(frame)+MinReliableChunkSize-1)/MinReliableChunkSize > c.Window {
				x.Class("out_of_domain_chunks_exceed_window")
				return
			}
		}
	}
	x.Class(fmt.Sprintf("window_%d", c.Window))
	if chunked > 0 {
		x.Class("has_chunked_messages")
	}
	if c.ConsumerFirst {
		x.Class("consumer_spawned_first")
	}

	strikes := 0
	var last *c42Run
	for attempt := 0; attempt < 3; attempt++ {
		r, outcome := c42RunOnce(x, &c, attempt)
		last = r
		r.mu.Lock()
		hist := append([]string(nil), r.hist...)
		viol := r.viol
		r.mu.Unlock()
		if outcome == c42Violated || viol != nil {
			for _, l := range hist {
				x.Logf("%s", l)
			}
			x.Failf(viol.fp, "%s", viol.msg)
		}
		if outcome == c42Stalled {
			strikes++
			x.Class("stalled_execution")
			// diagnostic only (process log): the tail of a stalled execution
			cj, _ := json.Marshal(c)
			fmt.Printf("C42-STALL attempt=%d case=%s\n", attempt, cj)
			for _, l := range hist[max(0, len(hist)-150):] {
				fmt.Println("   ", l)
			}
			continue
		}
		if outcome == c42Inconclusive {
			x.Class("inconclusive_wall_cap")
			return
		}
		break
	}
	r := last
	r.mu.Lock()
	defer r.mu.Unlock()
	if strikes == 3 {
		for _, l := range r.hist {
			x.Logf("%s", l)
		}
		missing := []string{}
		for _, id := range r.ids {
			if r.prodConf[id] == 0 {
				missing = append(missing, id)
			}
		}
		x.Failf("messages-never-confirmed-stall", "3 of 3 executions stalled: after the fault horizon %d fault-free controller messages were exchanged without progress; %d of %d messages presented, unconfirmed at the producer: %v", c42StallLimit, r.presented, c.N, missing)
	}
	if strikes > 0 {
		x.Class("stall_not_reproduced")
		return
	}
	if r.restarted {
		x.Class("out_of_domain_controller_restarted")
		return
	}
	// completed: every message was presented (in order, judged on the way) and confirmed
	if r.presented != c.N {
		for _, l := range r.hist {
			x.Logf("%s", l)
		}
		x.Failf("confirmed-without-presentation", "all %d messages are confirmed at the producer but only %d were presented to the consumer", c.N, r.presented)
	}
	x.Class("completed")
	seqDrops := r.applied[c42TSeq][0]
	ctlFaults := r.applied[c42TRequest][0] + r.applied[c42TRequest][1] + r.applied[c42TAck][0] + r.applied[c42TAck][1]
	for ty := 0; ty < c42NTypes; ty++ {
		for k, name := range []string{"dropped", "duplicated", "held"} {
			if r.applied[ty][k] > 0 {
				x.Class(c42TypeNames[ty] + "_" + name)
			}
		}
	}
	if r.released > 0 {
		x.Class("held_message_released_later")
	}
	if r.represented > 0 {
		x.Class("in_flight_message_re_presented")
	}
	if seqDrops > 0 && ctlFaults > 0 {
		x.NonTrivial()
	}
}

func TestVF_C42_faults(t *testing.T) {
	c42TellHook, c42ObsHook = c42Tell, c42Obs
	sys, err := NewActorSystem("c42", WithLogger(log.DiscardLogger))
	if err != nil {
		t.Fatal(err)
	}
	if err := sys.Start(context.Background()); err != nil {
		t.Fatal(err)
	}
	c42Sys = sys.(*actorSystem)
	t.Cleanup(func() { _ = sys.Stop(context.Background()) })

	vfkit.Run(t, vfkit.Spec[c42Case]{
		ID: "C42", Unit: "faults",
		Rule: "a case is a workload (1..30 messages, window in {1,2,5,50}, optional chunking, feed/confirm delays, skipped confirmations, spawn order, tick intervals 10..30 ms, schedule noise) plus a fault plan of 2..15 drop/duplicate/hold-k decisions indexed by message type and ordinal, applied to the first Horizon messages of each direction between the real controllers; non-trivial = the flow completed and at least one SequencedMessage was dropped AND at least one Request or Ack was dropped or duplicated in the same execution; distinct = distinct case (workload + plan + noise profile)",
		Gen:  c42Gen, Exec: c42Exec, ReplayReps: 20,
	})
}

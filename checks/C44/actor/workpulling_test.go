//go:build verif

package actor

import (
	"context"
	"encoding/json"
	"fmt"
	"sort"
	"sync"
	"sync/atomic"
	"testing"
	"time"

	"pgregory.net/rapid"

	"github.com/tochemey/goakt/v4/internal/commands"
	"github.com/tochemey/goakt/v4/internal/vfkit"
	"github.com/tochemey/goakt/v4/internal/vfsched"
	"github.com/tochemey/goakt/v4/log"
	"github.com/tochemey/goakt/v4/test/data/testpb"
)

// ---------------------------------------------------------------------------
// C44: work-pulling delivers every job to some worker. A real work-pulling
// producer endpoint (AsReliableWorkPullingProducer) and a generated, changing set
// of worker endpoints (AsReliableWorkPullingWorker) run on a real ActorSystem;
// workers join while the jobs are being fed and stop themselves while holding an
// unconfirmed job; the generated fault plan is applied where the work-pulling
// controller and the workers' consumer controllers send to each other
// (prologues injected into workPullingProducerController.tell / consumerController.tell).
// ---------------------------------------------------------------------------

const (
	c44Deliver = 0
	c44Drop    = 1
	c44Dup     = 2
	c44Hold    = 10 // c44Hold+k: hold back until k later messages of the same sender have passed
)

const (
	c44TRegister = iota // worker's consumer controller -> work-pulling controller
	c44TRequest
	c44TAck
	c44TRegAck // work-pulling controller -> worker's consumer controller
	c44TSeq
	c44NTypes
)

var c44TypeNames = [c44NTypes]string{"RegisterConsumer", "Request", "Ack", "RegistrationAck", "SequencedMessage"}

// c44FpOrphan is the fingerprint of finding F-C44-1 (see FINDINGS.md).
const c44FpOrphan = "dead-worker-binding-never-ended"

const (
	c44StallLimit = 300              // fault-free controller messages without progress
	c44WallCap    = 25 * time.Second // per execution; exhausting it is inconclusive
)

type c44Plan struct {
	Register []int `json:"register"`
	Request  []int `json:"request"`
	Ack      []int `json:"ack"`
	RegAck   []int `json:"reg_ack"`
	Seq      []int `json:"seq"`
}

func (p *c44Plan) of(typ int) []int {
	switch typ {
	case c44TRegister:
		return p.Register
	case c44TRequest:
		return p.Request
	case c44TAck:
		return p.Ack
	case c44TRegAck:
		return p.RegAck
	default:
		return p.Seq
	}
}

type c44WorkerSpec struct {
	JoinAt    int `json:"join_at"`    // spawned just before job JoinAt is handed to the producer endpoint (0 = before any job)
	StopAt    int `json:"stop_at"`    // 0 = never stops; k = stops itself when handed its k-th distinct job, without confirming it
	Window    int `json:"window"`     // flow-control window of the worker
	ResendMs  int `json:"resend_ms"`  // worker controller tick
	ConfirmMs int `json:"confirm_ms"` // processing time per job
}

type c44Case struct {
	N          int             `json:"n"`
	Workers    []c44WorkerSpec `json:"workers"`
	RetryMs    int             `json:"retry_ms"`
	FeedMs     []int           `json:"feed_ms"`
	Horizon    int             `json:"horizon"` // faults apply to the first Horizon messages of each direction
	Plan       c44Plan         `json:"plan"`
	NoiseSeed  uint64          `json:"noise_seed"`
	NoiseProb  float64         `json:"noise_prob"`
	NoiseSleep int             `json:"noise_sleep"`
}

func c44GenDecision(t *rapid.T, label string) int {
	switch rapid.IntRange(0, 9).Draw(t, label) {
	case 0, 1, 2, 3:
		return c44Drop
	case 4, 5, 6:
		return c44Dup
	default:
		return c44Hold + rapid.IntRange(1, 6).Draw(t, label+"_k")
	}
}

func c44Gen(t *rapid.T) c44Case {
	var c c44Case
	maxN := 12
	if vfkit.Thorough() {
		maxN = 25
	}
	c.N = rapid.OneOf(rapid.IntRange(1, 6), rapid.IntRange(1, maxN)).Draw(t, "n")
	nw := rapid.IntRange(1, 4).Draw(t, "workers")
	survivor := rapid.IntRange(0, nw-1).Draw(t, "survivor")
	for w := 0; w < nw; w++ {
		var s c44WorkerSpec
		if rapid.IntRange(0, 2).Draw(t, "late") == 0 {
			s.JoinAt = rapid.IntRange(0, c.N-1).Draw(t, "join_at")
		}
		if w != survivor && rapid.IntRange(0, 3).Draw(t, "stops") != 0 {
			s.StopAt = rapid.SampledFrom([]int{1, 1, 2, 3}).Draw(t, "stop_at")
		}
		s.Window = rapid.SampledFrom([]int{1, 2, 5, 50}).Draw(t, "window")
		s.ResendMs = rapid.IntRange(10, 30).Draw(t, "resend_ms")
		s.ConfirmMs = rapid.SampledFrom([]int{0, 0, 0, 1, 5, 20}).Draw(t, "confirm_ms")
		c.Workers = append(c.Workers, s)
	}
	if nw > 1 && rapid.IntRange(0, 2).Draw(t, "stopper_first") != 0 {
		// make sure a stopping worker is usually there from the start so that it is handed jobs
		for w := range c.Workers {
			if c.Workers[w].StopAt > 0 {
				c.Workers[w].JoinAt = 0
				break
			}
		}
	}
	c.RetryMs = rapid.IntRange(10, 30).Draw(t, "retry_ms")
	feedMode := rapid.IntRange(0, 2).Draw(t, "feed_mode")
	for i := 0; i < c.N; i++ {
		f := 0
		switch feedMode {
		case 1:
			f = rapid.IntRange(0, 3).Draw(t, "feed_ms")
		case 2:
			f = rapid.SampledFrom([]int{0, 0, 0, 1, 5, 20}).Draw(t, "feed_ms")
		}
		c.FeedMs = append(c.FeedMs, f)
	}
	c.Horizon = rapid.IntRange(30, 120).Draw(t, "horizon")

	budget := rapid.IntRange(0, 15).Draw(t, "faults")
	lens := [c44NTypes]int{8, 10, 8, 8, c.N + 8}
	plans := [c44NTypes][]int{}
	for ty := 0; ty < c44NTypes; ty++ {
		plans[ty] = make([]int, lens[ty])
	}
	for i := 0; i < budget; i++ {
		ty := rapid.SampledFrom([]int{c44TRegister, c44TRequest, c44TRequest, c44TAck, c44TAck, c44TRegAck, c44TSeq, c44TSeq, c44TSeq}).Draw(t, "fault_type")
		at := rapid.IntRange(0, lens[ty]-1).Draw(t, "fault_at")
		if plans[ty][at] == c44Deliver {
			plans[ty][at] = c44GenDecision(t, "fault")
		}
	}
	trim := func(p []int) []int {
		for len(p) > 0 && p[len(p)-1] == c44Deliver {
			p = p[:len(p)-1]
		}
		return p
	}
	c.Plan = c44Plan{Register: trim(plans[c44TRegister]), Request: trim(plans[c44TRequest]), Ack: trim(plans[c44TAck]), RegAck: trim(plans[c44TRegAck]), Seq: trim(plans[c44TSeq])}

	c.NoiseSeed = rapid.Uint64().Draw(t, "noise_seed")
	c.NoiseProb = rapid.SampledFrom([]float64{0, 0, 0.01, 0.05, 0.2}).Draw(t, "noise_prob")
	c.NoiseSleep = rapid.SampledFrom([]int{0, 50, 300}).Draw(t, "noise_sleep")
	return c
}

// ---------------------------------------------------------------------------
// per-execution harness state

type c44Held struct {
	self, to *PID
	msg      any
	left     int
}

type c44Violation struct {
	fp, msg string
}

type c44WorkerState struct {
	name        string
	joined      bool
	dead        bool
	outstanding int
	presented   map[string]int  // job id -> presentations by this worker's controller
	confirmed   map[string]bool // job id -> this worker's endpoint sent Confirmed
	heldAtStop  []string        // jobs presented to the endpoint and not confirmed when it stopped
	held        []c44Held       // messages held back on this worker's controller's send path
}

type c44Run struct {
	c        *c44Case
	prodName string
	ids      []string
	index    map[string]int
	byName   map[string]int // worker endpoint name -> worker index

	mu            sync.Mutex
	hist          []string
	dirCount      [2]int // 0: work-pulling controller -> workers, 1: workers -> work-pulling controller
	prodHeld      []c44Held
	typeCount     [c44NTypes]int
	applied       [c44NTypes][3]int
	released      int
	prodOut       int // controller->producer endpoint messages not yet handled
	quiet         int
	backlogged    int
	fedSeen       int
	restarted     bool
	workers       []*c44WorkerState
	aliveAtEnd    []string // live workers when the execution was decided (before teardown)
	orphans       []string // certificates collected by declareStall
	earlyReg      map[string]int
	suppressedReg int
	wpPID         *PID
	orphanOther   bool // some orphaned binding is not explained by a registration handled before the controller was attached

	storedSeq  map[string]int64
	presentTo  map[string][]int // job id -> workers it was presented to, in order of first presentation
	workerConf map[string]bool  // job id -> some worker endpoint sent Confirmed
	prodConf   map[string]int
	prodConfN  int
	stops      int

	viol    *c44Violation
	failCh  chan struct{}
	stallCh chan struct{}
	doneCh  chan struct{}
	stalled bool
	done    bool
}

var c44Runs sync.Map // endpoint name -> *c44Run

func (r *c44Run) logf(format string, args ...any) {
	if len(r.hist) < 2000 {
		r.hist = append(r.hist, fmt.Sprintf(format, args...))
	}
}

func (r *c44Run) fail(fp, format string, args ...any) {
	if r.viol != nil {
		return
	}
	r.viol = &c44Violation{fp: fp, msg: fmt.Sprintf(format, args...)}
	r.logf("VIOLATION %s: %s", fp, r.viol.msg)
	close(r.failCh)
}

func (r *c44Run) progress() { r.quiet = 0 }

func (r *c44Run) heldCount() int {
	n := len(r.prodHeld)
	for _, w := range r.workers {
		if !w.dead {
			n += len(w.held)
		}
	}
	return n
}

// quietStep counts one fault-free controller message (mu held). Messages sent
// while a controller mailbox is backlogged are not counted: on an overloaded
// machine a controller that cannot keep up with its peers' ticks answers stale
// registrations for ever, which is starvation, not a protocol stall.
func (r *c44Run) quietStep(self, to *PID) {
	if r.done || r.stalled {
		return
	}
	if self.mailbox.Len() > 2 || to.mailbox.Len() > 2 {
		r.backlogged++
		return
	}
	h := r.c.Horizon
	if r.dirCount[0] <= h || r.dirCount[1] <= h || r.heldCount() > 0 {
		return // the fault budget is not spent yet
	}
	if r.fedSeen < r.c.N || r.prodOut > 0 {
		return
	}
	for _, w := range r.workers {
		if w.joined && !w.dead && w.outstanding > 0 {
			return // a live worker endpoint still has a job in its hands
		}
	}
	r.quiet++ // the stall is declared on the work-pulling controller's next turn (declareStall)
}

// declareStall ends the execution as stalled. It runs on the work-pulling
// controller's own turn, so the controller's bindings can be read: a binding whose
// worker controller is no longer running and which still holds dispatched,
// unconfirmed jobs is a certificate that those jobs can never make progress
// (finding F-C44-1): the only events that end a binding are a Terminated for the
// worker controller (it would have been delivered long ago: the controller's
// mailbox has been nearly empty c44StallLimit times since the worker died), a
// registration from a new controller of the same worker endpoint (names are never
// reused here) and traffic from the dead controller itself.
func (r *c44Run) declareStall(pc *workPullingProducerController) {
	r.stalled = true
	r.logf("STALL: %d fault-free controller messages without progress", r.quiet)
	names := make([]string, 0, len(pc.bindings))
	for name := range pc.bindings {
		names = append(names, name)
	}
	sort.Strings(names)
	for _, name := range names {
		b := pc.bindings[name]
		if b.controller == nil || b.controller.IsRunning() || len(b.unconfirmed) == 0 {
			continue
		}
		jobs := []string{}
		for _, m := range b.unconfirmed {
			jobs = append(jobs, m.messageID)
		}
		watched := false
		for _, w := range c44Sys.tree().watchers(b.controller) {
			if w.Equals(r.wpPID) {
				watched = true
			}
		}
		o := fmt.Sprintf("worker %s: its controller %s is stopped, the binding still holds %v (work-pulling controller registered as its watcher: %v, registrations handled before the worker controller was attached to the actor tree: %d)", name, b.controller.Name(), jobs, watched, r.earlyReg[name])
		r.logf("ORPHANED BINDING %s", o)
		r.orphans = append(r.orphans, o)
		if r.earlyReg[name] == 0 || watched {
			r.orphanOther = true // not the shape of F-C44-1: the watch was not lost by an early registration
		}
	}
	close(r.stallCh)
}

func c44Classify(message any) int {
	switch message.(type) {
	case *commands.RegisterConsumer:
		return c44TRegister
	case *commands.Request:
		return c44TRequest
	case *commands.Ack:
		return c44TAck
	case *commands.RegistrationAck:
		return c44TRegAck
	case *commands.SequencedMessage:
		return c44TSeq
	}
	return -1
}

func c44Describe(message any) string {
	switch m := message.(type) {
	case *commands.RegisterConsumer:
		return "RegisterConsumer(" + m.Nonce()[:4] + ")"
	case *commands.RegistrationAck:
		return fmt.Sprintf("RegistrationAck(next=%d,%s)", m.NextSeq(), m.Nonce()[:4])
	case *commands.Request:
		return fmt.Sprintf("Request(conf=%d,upTo=%d,timeout=%v,%s)", m.ConfirmedSeq(), m.RequestUpToSeq(), m.ViaTimeout(), m.RegistrationNonce()[:4])
	case *commands.Ack:
		return fmt.Sprintf("Ack(conf=%d,%s)", m.ConfirmedSeq(), m.RegistrationNonce()[:4])
	case *commands.SequencedMessage:
		return fmt.Sprintf("Sequenced(seq=%d,id=%s)", m.Seq(), m.MessageID())
	case *Delivery:
		return fmt.Sprintf("Delivery(seq=%d,id=%s)", m.Seq(), m.MessageID())
	case *RequestNext:
		return "RequestNext(" + m.Token()[:4] + ")"
	case *Stored:
		return fmt.Sprintf("Stored(seq=%d,id=%s)", m.Seq(), m.MessageID())
	case *DeliveryConfirmed:
		return fmt.Sprintf("DeliveryConfirmed(seq=%d,id=%s)", m.Seq(), m.MessageID())
	}
	return fmt.Sprintf("%T", message)
}

func c44RunOf(ctrl any) (*c44Run, string) {
	var ep *PID
	switch c := ctrl.(type) {
	case *workPullingProducerController:
		ep = c.producer
	case *consumerController:
		ep = c.consumer
	}
	if ep == nil {
		return nil, ""
	}
	if v, ok := c44Runs.Load(ep.Name()); ok {
		return v.(*c44Run), ep.Name()
	}
	return nil, ""
}

func c44Tell(role int, ctrl any, self, to *PID, message any) bool {
	r, name := c44RunOf(ctrl)
	if r == nil {
		return false
	}
	return r.tell(role, name, ctrl, self, to, message)
}

func c44Obs(kind int, ctrl any, sender *PID, message any) {
	r, name := c44RunOf(ctrl)
	if r == nil {
		return
	}
	r.mu.Lock()
	defer r.mu.Unlock()
	switch kind {
	case 2: // workPullingProducerController.terminate
		if pc := ctrl.(*workPullingProducerController); !pc.failed {
			r.fail("flow-terminated-work-pulling-controller", "the work-pulling producer controller failed terminally under message faults / worker churn only: %v", message)
		}
	case 3: // consumerController.fail
		cc := ctrl.(*consumerController)
		if w := r.workers[r.byName[name]]; !cc.failed && !w.dead {
			r.fail("flow-terminated-worker-controller", "the consumer controller of live worker %s failed terminally under message faults only: %v", name, message)
		}
	case 4: // consumerController.handleTick
		if cc := ctrl.(*consumerController); cc.generation > 1 {
			r.restarted = true
		}
	}
}

func (r *c44Run) tell(role int, name string, ctrl any, self, to *PID, message any) bool {
	ctx := context.Background()
	typ := c44Classify(message)
	var w *c44WorkerState
	if role == 1 {
		w = r.workers[r.byName[name]]
	}
	if typ < 0 {
		// controller -> its own endpoint: never faulted, only observed
		r.mu.Lock()
		if role == 0 {
			r.prodOut++
			if pc := ctrl.(*workPullingProducerController); pc.generation > 1 {
				r.restarted = true
			}
		} else {
			w.outstanding++
			if d, ok := message.(*Delivery); ok {
				r.onPresent(w, d)
			}
		}
		r.mu.Unlock()
		if err := self.Tell(ctx, to, message); err != nil {
			r.mu.Lock()
			if role == 0 {
				r.prodOut--
			} else {
				w.outstanding--
			}
			r.mu.Unlock()
		}
		return true
	}

	r.mu.Lock()
	r.dirCount[role]++
	count := r.dirCount[role]
	idx := r.typeCount[typ]
	r.typeCount[typ]++
	dec := c44Deliver
	if plan := r.c.Plan.of(typ); count <= r.c.Horizon && idx < len(plan) {
		dec = plan[idx]
	}
	suppressed := false
	if typ == c44TRegister && !w.joined && vfkit.Known("C44", c44FpOrphan) {
		// listed finding F-C44-1 excluded by construction: a registration sent before
		// Spawn of the worker returned (controller not attached yet) is lost; the tick retries it
		dec, suppressed = c44Drop, true
		r.suppressedReg++
	}
	heldp := &r.prodHeld
	if role == 1 {
		heldp = &w.held
	}
	var rel []c44Held
	keep := (*heldp)[:0]
	for _, h := range *heldp {
		h.left--
		if h.left <= 0 {
			rel = append(rel, h)
		} else {
			keep = append(keep, h)
		}
	}
	*heldp = keep
	sends := 1
	what := ""
	switch {
	case suppressed:
		sends, what = 0, " LOST (sent before the worker's Spawn returned; F-C44-1 excluded by construction)"
	case dec == c44Drop:
		sends, what = 0, " DROPPED"
		r.applied[typ][0]++
	case dec == c44Dup:
		sends, what = 2, " DUPLICATED"
		r.applied[typ][1]++
	case dec >= c44Hold:
		sends, what = 0, fmt.Sprintf(" HELD(%d)", dec-c44Hold)
		r.applied[typ][2]++
		*heldp = append(*heldp, c44Held{self: self, to: to, msg: message, left: dec - c44Hold})
	}
	side := "WP->" + to.Name()
	if role == 1 {
		side = name + "->WP"
	}
	r.logf("%s #%d %s[%d]%s", side, count, c44Describe(message), idx, what)
	for _, h := range rel {
		r.released++
		r.logf("%s      released %s", side, c44Describe(h.msg))
	}
	if dec == c44Deliver {
		r.quietStep(self, to)
	}
	if pc, ok := ctrl.(*workPullingProducerController); ok {
		r.wpPID = self
		if typ == c44TRegAck {
			if _, attached := c44Sys.tree().node(to.ID()); !attached {
				// ensureReliableCompanion starts the worker's controller before it is attached
				// to the actor tree: tree.addWatcher is a silent no-op for an unknown node
				ep := ""
				for name, b := range pc.bindings {
					if b.controller != nil && b.controller.Equals(to) {
						ep = name
					}
				}
				r.earlyReg[ep]++
				r.logf("WP   registered %s (%s) before its controller was attached to the actor tree: ctx.Watch was a no-op", ep, to.Name())
			}
		}
		if r.quiet >= c44StallLimit && !r.stalled && !r.done {
			r.declareStall(pc)
		}
	}
	r.mu.Unlock()

	for i := 0; i < sends; i++ {
		_ = self.Tell(ctx, to, message)
	}
	for _, h := range rel {
		_ = h.self.Tell(ctx, h.to, h.msg)
	}
	return true
}

// onPresent records one Delivery a worker's consumer controller hands to its
// endpoint (on the controller's turn, mu held).
func (r *c44Run) onPresent(w *c44WorkerState, d *Delivery) {
	id := d.MessageID()
	if _, ok := r.index[id]; !ok {
		r.fail("unknown-job-presented", "worker %s was handed Delivery id=%s which the producer never produced", w.name, id)
		return
	}
	if w.presented[id] == 0 {
		r.logf("%s presented Delivery(seq=%d,id=%s)", w.name, d.Seq(), id)
		r.presentTo[id] = append(r.presentTo[id], r.byName[w.name])
		r.progress()
	}
	w.presented[id]++
}

// ---------------------------------------------------------------------------
// endpoints written to the documented contracts (RELIABLE_DELIVERY.md 5.2 / 5.3 / 14)

type c44Submit struct{ idx int }

type c44Producer struct {
	r            *c44Run
	pending      []int
	request      *RequestNext
	ctrl         *PID
	lastToken    string
	lastProduced *Produced
}

func (p *c44Producer) PreStart(*Context) error { return nil }
func (p *c44Producer) PostStop(*Context) error { return nil }

func (r *c44Run) prodDone() {
	r.mu.Lock()
	r.prodOut--
	r.mu.Unlock()
}

func (p *c44Producer) Receive(ctx *ReceiveContext) {
	r := p.r
	switch msg := ctx.Message().(type) {
	case *c44Submit:
		p.pending = append(p.pending, msg.idx)
		r.mu.Lock()
		r.fedSeen++
		r.progress()
		r.mu.Unlock()
		p.flush(ctx)
	case *RequestNext:
		defer r.prodDone()
		if !msg.IsAuthorizedFor(ctx.Self(), ctx.Sender()) {
			return
		}
		p.ctrl = ctx.Sender()
		if msg.Token() == p.lastToken && p.lastProduced != nil {
			ctx.Tell(p.ctrl, p.lastProduced) // idempotent answer to a retried grant
			return
		}
		p.request = msg
		p.flush(ctx)
	case *Stored:
		defer r.prodDone()
		if !msg.IsAuthorizedFor(ctx.Self(), ctx.Sender()) {
			return
		}
		if len(p.pending) > 0 && r.ids[p.pending[0]] == msg.MessageID() {
			p.pending = p.pending[1:] // retention handoff: the head is removed on Stored
			r.mu.Lock()
			r.storedSeq[msg.MessageID()] = msg.Seq()
			r.logf("P    Stored(seq=%d,id=%s)", msg.Seq(), msg.MessageID())
			r.progress()
			r.mu.Unlock()
		}
		ack, err := NewStoredAck(msg)
		if err != nil {
			ctx.Err(err)
			return
		}
		ctx.Tell(ctx.Sender(), ack)
	case *DeliveryConfirmed:
		defer r.prodDone()
		if !msg.IsAuthorizedFor(ctx.Self(), ctx.Sender()) {
			return
		}
		r.onDeliveryConfirmed(msg)
	}
}

func (p *c44Producer) flush(ctx *ReceiveContext) {
	if p.request == nil || len(p.pending) == 0 {
		return
	}
	idx := p.pending[0]
	produced, err := NewProduced(p.request, p.r.ids[idx], &testpb.Reply{Content: p.r.ids[idx]})
	if err != nil {
		ctx.Err(err)
		return
	}
	p.lastToken, p.lastProduced, p.request = p.request.Token(), produced, nil
	ctx.Tell(p.ctrl, produced)
}

func (r *c44Run) onDeliveryConfirmed(msg *DeliveryConfirmed) {
	r.mu.Lock()
	defer r.mu.Unlock()
	id := msg.MessageID()
	r.logf("P    DeliveryConfirmed(seq=%d,id=%s)", msg.Seq(), id)
	if r.restarted {
		return
	}
	if _, ok := r.index[id]; !ok {
		r.fail("unknown-job-confirmed", "the producer endpoint was told DeliveryConfirmed for id=%s which it never produced", id)
		return
	}
	if !r.workerConf[id] {
		r.fail("job-confirmed-without-worker-confirmation", "the producer endpoint was told DeliveryConfirmed id=%s seq=%d but no worker endpoint has sent Confirmed for it (presented to workers %v)", id, msg.Seq(), r.presentTo[id])
		return
	}
	if s, ok := r.storedSeq[id]; !ok || s != msg.Seq() {
		r.fail("confirmation-seq-differs-from-stored-seq", "DeliveryConfirmed id=%s seq=%d, Stored said seq=%d (known=%v)", id, msg.Seq(), s, ok)
		return
	}
	r.prodConf[id]++
	if r.prodConf[id] > 1 {
		r.fail("job-confirmed-twice", "the producer endpoint was told DeliveryConfirmed for id=%s %d times within one controller incarnation (presented to workers %v)", id, r.prodConf[id], r.presentTo[id])
		return
	}
	r.prodConfN++
	r.progress()
	if r.prodConfN == r.c.N && !r.done {
		r.done = true
		close(r.doneCh)
	}
}

type c44Worker struct {
	r        *c44Run
	w        int
	distinct int
	seen     map[string]bool
}

func (k *c44Worker) PreStart(*Context) error { return nil }

func (k *c44Worker) PostStop(*Context) error {
	r := k.r
	r.mu.Lock()
	ws := r.workers[k.w]
	if !ws.dead {
		ws.dead = true
		r.logf("%s stopped", ws.name)
		r.progress()
	}
	r.mu.Unlock()
	return nil
}

func (k *c44Worker) Receive(ctx *ReceiveContext) {
	msg, ok := ctx.Message().(*Delivery)
	if !ok {
		return
	}
	r := k.r
	ws := r.workers[k.w]
	spec := r.c.Workers[k.w]
	defer func() {
		r.mu.Lock()
		ws.outstanding--
		r.mu.Unlock()
	}()
	if !msg.IsAuthorizedFor(ctx.Self(), ctx.Sender()) {
		return
	}
	id := msg.MessageID()
	if !k.seen[id] {
		k.seen[id] = true
		k.distinct++
	}
	if spec.StopAt > 0 && k.distinct >= spec.StopAt {
		// the worker stops while it holds this job unconfirmed
		r.mu.Lock()
		if !ws.dead {
			for j := range ws.presented {
				if !ws.confirmed[j] {
					ws.heldAtStop = append(ws.heldAtStop, j)
				}
			}
			sort.Strings(ws.heldAtStop)
			r.stops++
			r.logf("%s stops itself holding %v unconfirmed", ws.name, ws.heldAtStop)
		}
		r.mu.Unlock()
		ctx.Shutdown()
		return
	}
	if spec.ConfirmMs > 0 {
		time.Sleep(time.Duration(spec.ConfirmMs) * time.Millisecond)
	}
	confirmed, err := NewConfirmed(msg)
	if err != nil {
		ctx.Err(err)
		return
	}
	r.mu.Lock()
	if !ws.confirmed[id] {
		r.logf("%s sends Confirmed(seq=%d,id=%s)", ws.name, msg.Seq(), id)
		r.progress()
	}
	ws.confirmed[id] = true
	r.workerConf[id] = true
	r.mu.Unlock()
	ctx.Tell(ctx.Sender(), confirmed)
}

// ---------------------------------------------------------------------------
// execution

var (
	c44Sys     *actorSystem
	c44Counter atomic.Int64
)

const (
	c44Completed = iota
	c44Stalled
	c44Violated
	c44Inconclusive
)

func c44RunOnce(c *c44Case, attempt int) (*c44Run, int) {
	ctx := context.Background()
	n := c44Counter.Add(1)
	r := &c44Run{
		c: c, prodName: fmt.Sprintf("c44-producer-%d", n), index: map[string]int{}, byName: map[string]int{},
		earlyReg: map[string]int{}, storedSeq: map[string]int64{}, presentTo: map[string][]int{}, workerConf: map[string]bool{}, prodConf: map[string]int{},
		failCh: make(chan struct{}), stallCh: make(chan struct{}), doneCh: make(chan struct{}),
	}
	for i := 0; i < c.N; i++ {
		r.ids = append(r.ids, fmt.Sprintf("job-%d-%d", n, i))
		r.index[r.ids[i]] = i
	}
	for w := range c.Workers {
		name := fmt.Sprintf("c44-worker-%d-%d", n, w)
		r.byName[name] = w
		r.workers = append(r.workers, &c44WorkerState{name: name, presented: map[string]int{}, confirmed: map[string]bool{}})
		c44Runs.Store(name, r)
	}
	c44Runs.Store(r.prodName, r)
	vfsched.SetNoise(c.NoiseSeed+uint64(attempt), c.NoiseProb, c.NoiseSleep)
	defer vfsched.SetNoise(0, 0, 0)

	producer, err := c44Sys.Spawn(ctx, r.prodName, &c44Producer{r: r},
		AsReliableWorkPullingProducer(WithReliableRetryInterval(time.Duration(c.RetryMs)*time.Millisecond), WithReliableDeliveryConfirmation()))
	if err != nil {
		panic(fmt.Sprintf("c44: spawning the producer endpoint failed: %v", err))
	}
	var pidMu sync.Mutex
	pids := []*PID{}
	join := func(w int) {
		s := c.Workers[w]
		pid, err := c44Sys.Spawn(ctx, r.workers[w].name, &c44Worker{r: r, w: w, seen: map[string]bool{}},
			AsReliableWorkPullingWorker(r.prodName, WithReliableFlowControlWindow(s.Window), WithReliableResendInterval(time.Duration(s.ResendMs)*time.Millisecond)))
		if err != nil {
			panic(fmt.Sprintf("c44: spawning worker %d failed: %v", w, err))
		}
		pidMu.Lock()
		pids = append(pids, pid)
		pidMu.Unlock()
		r.mu.Lock()
		r.workers[w].joined = true
		r.logf("%s joined (window=%d, stopAt=%d)", r.workers[w].name, s.Window, s.StopAt)
		r.progress()
		r.mu.Unlock()
	}
	defer func() {
		_ = producer.Shutdown(ctx)
		pidMu.Lock()
		for _, p := range pids {
			_ = p.Shutdown(ctx)
		}
		pidMu.Unlock()
		c44Runs.Delete(r.prodName)
		for _, w := range r.workers {
			c44Runs.Delete(w.name)
		}
	}()

	stopFeed := make(chan struct{})
	var feeder sync.WaitGroup
	feeder.Add(1)
	go func() {
		defer feeder.Done()
		for i := 0; i < c.N; i++ {
			for w, s := range c.Workers {
				if s.JoinAt == i {
					join(w)
				}
			}
			if d := c.FeedMs[i]; d > 0 {
				select {
				case <-time.After(time.Duration(d) * time.Millisecond):
				case <-stopFeed:
					return
				}
			}
			_ = Tell(ctx, producer, &c44Submit{idx: i})
		}
	}()
	outcome := c44Inconclusive
	timer := time.NewTimer(c44WallCap)
	select {
	case <-r.failCh:
		outcome = c44Violated
	case <-r.doneCh:
		outcome = c44Completed
	case <-r.stallCh:
		outcome = c44Stalled
	case <-timer.C:
	}
	timer.Stop()
	close(stopFeed)
	feeder.Wait()
	r.mu.Lock()
	for _, w := range r.workers {
		if w.joined && !w.dead {
			r.aliveAtEnd = append(r.aliveAtEnd, w.name)
		}
	}
	r.mu.Unlock()
	if outcome == c44Completed {
		// let the tail of the protocol run (late duplicates) and look for late violations
		select {
		case <-r.failCh:
			outcome = c44Violated
		case <-time.After(60 * time.Millisecond):
		}
	}
	return r, outcome
}

// c44Tail keeps the first 250 and the last 60 lines of a stalled history (diagnostics).
func c44Tail(hist []string) []string {
	if len(hist) <= 320 {
		return hist
	}
	out := append([]string(nil), hist[:250]...)
	out = append(out, fmt.Sprintf("... %d lines ...", len(hist)-310))
	return append(out, hist[len(hist)-60:]...)
}

func c44Exec(x *vfkit.X, c c44Case) {
	x.Class(fmt.Sprintf("workers_%d", len(c.Workers)))
	strikes := 0
	var last *c44Run
	for attempt := 0; attempt < 3; attempt++ {
		r, outcome := c44RunOnce(&c, attempt)
		last = r
		r.mu.Lock()
		hist := append([]string(nil), r.hist...)
		viol := r.viol
		orphans := append([]string(nil), r.orphans...)
		orphanFp := c44FpOrphan
		if r.orphanOther {
			orphanFp = "stopped-worker-binding-never-ended"
		}
		alive := append([]string(nil), r.aliveAtEnd...)
		r.mu.Unlock()
		if viol != nil {
			for _, l := range hist {
				x.Logf("%s", l)
			}
			x.Failf(viol.fp, "%s", viol.msg)
		}
		if outcome == c44Stalled && len(orphans) > 0 {
			// exact, not timing dependent: no three-strikes rule needed
			for _, l := range c44Tail(hist) {
				x.Logf("%s", l)
			}
			x.Failf(orphanFp, "a stopped worker's jobs are never redelivered: %v; %d fault-free controller messages were exchanged without progress while other workers were alive %v", orphans, c44StallLimit, alive)
		}
		if outcome == c44Stalled {
			strikes++
			x.Class("stalled_execution")
			// diagnostic only (process log): the tail of a stalled execution
			cj, _ := json.Marshal(c)
			fmt.Printf("C44-STALL attempt=%d case=%s\n", attempt, cj)
			for _, l := range c44Tail(hist) {
				fmt.Println("   ", l)
			}
			continue
		}
		if outcome == c44Inconclusive {
			x.Class("inconclusive_wall_cap")
			return
		}
		break
	}
	r := last
	r.mu.Lock()
	defer r.mu.Unlock()
	dump := func() {
		for _, l := range r.hist {
			x.Logf("%s", l)
		}
	}
	if strikes == 3 {
		dump()
		missing := []string{}
		for _, id := range r.ids {
			if r.prodConf[id] == 0 {
				missing = append(missing, fmt.Sprintf("%s(presented to %v)", id, r.presentTo[id]))
			}
		}
		x.Failf("job-never-confirmed-stall", "3 of 3 executions stalled: after the fault horizon %d fault-free controller messages were exchanged without progress; live workers %v; jobs without confirmation at the producer: %v", c44StallLimit, r.aliveAtEnd, missing)
	}
	if strikes > 0 {
		x.Class("stall_not_reproduced")
		return
	}
	if r.restarted {
		x.Class("out_of_domain_controller_restarted")
		return
	}
	// completed: exactly one confirmation per job (judged on the way), every job presented to a worker
	requeued := 0
	for _, id := range r.ids {
		if len(r.presentTo[id]) == 0 {
			dump()
			x.Failf("job-confirmed-without-presentation", "job %s is confirmed at the producer but was never presented to a worker", id)
		}
	}
	for wi, w := range r.workers {
		for _, id := range w.heldAtStop {
			other := false
			for _, o := range r.presentTo[id] {
				if o != wi {
					other = true
				}
			}
			if !other {
				dump()
				x.Failf("held-job-not-redelivered", "job %s was held unconfirmed by worker %s when it stopped and was never presented to another worker", id, w.name)
			}
			requeued++
		}
	}
	x.Class("completed")
	for ty := 0; ty < c44NTypes; ty++ {
		for k, name := range []string{"dropped", "duplicated", "held"} {
			if r.applied[ty][k] > 0 {
				x.Class(c44TypeNames[ty] + "_" + name)
			}
		}
	}
	if r.released > 0 {
		x.Class("held_message_released_later")
	}
	early := 0
	for _, n := range r.earlyReg {
		early += n
	}
	if early > 0 {
		x.Class("registration_handled_before_worker_controller_attached")
	}
	if r.suppressedReg > 0 {
		x.Class("known_finding_F-C44-1_excluded_(early_registration_lost)")
	}
	late := false
	for _, s := range c.Workers {
		if s.JoinAt > 0 {
			late = true
		}
	}
	if late {
		x.Class("worker_joined_late")
	}
	if r.stops > 0 {
		x.Class(fmt.Sprintf("workers_stopped_%d", r.stops))
	}
	if requeued > 0 {
		x.Class("held_job_redelivered_to_other_worker")
		x.NonTrivial()
	}
}

func TestVF_C44_workpulling(t *testing.T) {
	c44TellHook, c44ObsHook = c44Tell, c44Obs
	sys, err := NewActorSystem("c44", WithLogger(log.DiscardLogger))
	if err != nil {
		t.Fatal(err)
	}
	if err := sys.Start(context.Background()); err != nil {
		t.Fatal(err)
	}
	c44Sys = sys.(*actorSystem)
	t.Cleanup(func() { _ = sys.Stop(context.Background()) })

	vfkit.Run(t, vfkit.Spec[c44Case]{
		ID: "C44", Unit: "workpulling",
		Rule: "a case is a job stream (1..25 jobs, feed delays), 1..4 workers (window in {1,2,5,50}, tick 10..30 ms, confirm delay; each joins before a generated job index and all but one designated survivor may stop themselves when handed their k-th distinct job without confirming it), schedule noise and a fault plan of 0..15 drop/duplicate/hold-k decisions indexed by message type and ordinal on the messages between the work-pulling controller and the workers' controllers; non-trivial = the flow completed and at least one worker stopped while holding a job it had been handed and not confirmed (another worker is alive or joins later by construction); distinct = distinct case",
		Gen:  c44Gen, Exec: c44Exec, ReplayReps: 20,
	})
}

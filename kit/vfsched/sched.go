//go:build verif

// Package vfsched is a deterministic cooperative scheduler for logical threads.
// Code under test reaches it through the vfatomic / vfsync shims (import-swapped
// copies of the real files): every atomic or lock operation calls Yield before
// and after the operation. While a Sched is running exactly one logical thread
// executes at a time and the harness chooses which one runs next, so an
// interleaving is an ordinary generated value. When no Sched is active, Yield
// optionally injects seeded schedule noise (engine E4) or does nothing.
package vfsched

import (
	"fmt"
	"runtime"
	"runtime/debug"
	"sync"
	"sync/atomic"
	"time"
)

// Thread is a logical thread.
type Thread struct {
	ID   int
	Name string

	fn      func()
	resume  chan struct{}
	exited  chan struct{}
	started bool
	done    bool
	exiting bool
	blocked func() bool // non-nil while waiting; runnable again once it returns true
	opEnds  int         // number of operation boundaries crossed (OpEnd calls)
	yields  int
	Panic   any
	Stack   string
	Local   any // harness-owned
}

// Outcome of Run.
type Outcome int

const (
	Completed  Outcome = iota // every thread finished
	Deadlock                  // unfinished threads exist but none is runnable
	StepBudget                // MaxSteps exhausted
)

func (o Outcome) String() string {
	return [...]string{"completed", "deadlock", "step-budget"}[o]
}

// Sched runs logical threads one at a time.
type Sched struct {
	threads  []*Thread
	cur      *Thread
	back     chan struct{}
	Steps    int
	MaxSteps int
	aborting bool
	wg       sync.WaitGroup
	// Trace, when non-nil, receives one entry per scheduling segment.
	Trace     []Segment
	KeepTrace bool
	// Preempts counts segments that ended by budget exhaustion (a forced switch).
	Preempts int
	// OnStep, when set, is called by the scheduler between two steps (no logical
	// thread is running): the place to evaluate global state invariants.
	OnStep func()
}

// Segment is one scheduling decision: thread T ran for Yields yield points.
type Segment struct {
	T      int    `json:"t"`
	Yields int    `json:"y"`
	Why    string `json:"why,omitempty"`
}

var active atomic.Pointer[Sched]

// Active returns the running scheduler, or nil.
func Active() *Sched { return active.Load() }

// New creates a scheduler.
func New() *Sched { return &Sched{back: make(chan struct{}), MaxSteps: 20000} }

// Go registers a logical thread. It may be called before Run or, from a running
// logical thread, during Run.
func (s *Sched) Go(name string, fn func()) *Thread {
	t := &Thread{ID: len(s.threads), Name: name, fn: fn, resume: make(chan struct{}), exited: make(chan struct{})}
	s.threads = append(s.threads, t)
	return t
}

// Threads returns all registered threads.
func (s *Sched) Threads() []*Thread { return s.threads }

// Current returns the logical thread that is executing.
func (s *Sched) Current() *Thread { return s.cur }

// Picker chooses the next thread among the runnable ones and a budget: the
// number of yield points it may pass before being pre-empted; budget < 0 means
// "run until the thread crosses an operation boundary, blocks or finishes".
type Picker func(runnable []*Thread) (idx int, budget int)

const spinGuard = 400 // max yields of one "run to boundary" segment

// Run executes the threads to completion (or deadlock / step budget) under pick.
// It must be called from a goroutine that is not a logical thread. All logical
// threads are gone when it returns.
func (s *Sched) Run(pick Picker) Outcome {
	if !active.CompareAndSwap(nil, s) {
		panic("vfsched: a scheduler is already running")
	}
	out := Completed
	// a panic of the picker (rapid aborting the case) must still tear the threads down
	defer func() {
		s.abort()
		active.Store(nil)
	}()
	var runnable []*Thread
	for {
		runnable = runnable[:0]
		unfinished := 0
		for _, t := range s.threads {
			if t.done {
				continue
			}
			unfinished++
			if t.blocked != nil {
				if !t.blocked() {
					continue
				}
				t.blocked = nil
			}
			runnable = append(runnable, t)
		}
		if unfinished == 0 {
			break
		}
		if len(runnable) == 0 {
			out = Deadlock
			break
		}
		if s.Steps >= s.MaxSteps {
			out = StepBudget
			break
		}
		idx, budget := pick(runnable)
		if idx < 0 || idx >= len(runnable) {
			idx = 0
		}
		t := runnable[idx]
		startOps, n, why := t.opEnds, 0, ""
		for {
			s.step(t)
			n++
			if s.OnStep != nil {
				s.OnStep()
			}
			if t.done {
				why = "done"
				break
			}
			if t.blocked != nil && !t.blocked() {
				why = "blocked"
				break
			}
			t.blocked = nil
			if s.Steps >= s.MaxSteps {
				why = "steps"
				break
			}
			if budget < 0 {
				if t.opEnds != startOps {
					why = "op"
					break
				}
				if n >= spinGuard {
					why = "spin"
					break
				}
			} else if n >= budget {
				why = "preempt"
				s.Preempts++
				break
			}
		}
		if s.KeepTrace {
			s.Trace = append(s.Trace, Segment{T: t.ID, Yields: n, Why: why})
		}
	}
	return out
}

func (s *Sched) step(t *Thread) {
	s.cur = t
	s.Steps++
	if !t.started {
		t.started = true
		s.wg.Add(1)
		go s.threadMain(t)
	}
	t.resume <- struct{}{}
	<-s.back
	s.cur = nil
}

func (s *Sched) threadMain(t *Thread) {
	defer s.wg.Done()
	defer close(t.exited)
	<-t.resume
	defer func() {
		if p := recover(); p != nil {
			t.Panic = p
			t.Stack = string(debug.Stack())
		}
		t.done = true
		if !s.aborting {
			s.back <- struct{}{}
		}
	}()
	if s.aborting {
		return
	}
	t.fn()
}

// abort terminates every unfinished thread (runtime.Goexit at its next yield).
func (s *Sched) abort() {
	s.aborting = true
	for _, t := range s.threads {
		if t.started && !t.done {
			t.resume <- struct{}{}
			<-t.exited // one at a time: deferred calls of the unwinding thread run alone
		}
	}
	s.wg.Wait()
}

// yield hands control back to the scheduler and waits to be resumed.
func (s *Sched) yield() {
	t := s.cur
	if t == nil {
		return // not a logical thread (set-up code running while a scheduler exists)
	}
	if s.aborting {
		if !t.exiting {
			t.exiting = true
			runtime.Goexit()
		}
		return
	}
	t.yields++
	s.back <- struct{}{}
	<-t.resume
	if s.aborting && !t.exiting {
		t.exiting = true
		runtime.Goexit()
	}
}

// Yield is a scheduling point. Called by the shims around every atomic / lock
// operation.
func Yield() {
	if s := active.Load(); s != nil {
		s.yield()
		return
	}
	if noiseOn.Load() {
		noise()
	}
}

// BlockUntil parks the calling logical thread until cond() is true. cond is
// evaluated by the scheduler between steps and must be side-effect free. With no
// scheduler it spins with runtime.Gosched (only used by shims in real-runtime
// mode for primitives that have no real counterpart).
func BlockUntil(cond func() bool) {
	s := active.Load()
	if s == nil || s.cur == nil {
		for !cond() {
			runtime.Gosched()
		}
		return
	}
	if s.aborting {
		s.yield()
		return
	}
	if cond() {
		return
	}
	s.cur.blocked = cond
	s.yield()
}

// OpEnd marks an operation boundary of the calling logical thread (harnesses call
// it after each API-level operation so "run to the next boundary" is meaningful).
func OpEnd() {
	if s := active.Load(); s != nil && s.cur != nil {
		s.cur.opEnds++
		s.yield()
	}
}

// CurrentID returns the id of the running logical thread, or -1.
func CurrentID() int {
	if s := active.Load(); s != nil && s.cur != nil {
		return s.cur.ID
	}
	return -1
}

// Steps returns the step counter of the active scheduler (a logical clock).
func Steps() int {
	if s := active.Load(); s != nil {
		return s.Steps
	}
	return -1
}

// Describe returns a short description of unfinished threads (for deadlock reports).
func (s *Sched) Describe() string {
	out := ""
	for _, t := range s.threads {
		st := "done"
		if !t.done {
			st = "runnable"
			if !t.started {
				st = "not-started"
			} else if t.blocked != nil {
				st = "blocked"
			}
		}
		out += fmt.Sprintf("[%d %s %s yields=%d]", t.ID, t.Name, st, t.yields)
	}
	return out
}

// ---------------------------------------------------------------------------
// schedule noise for the real runtime (engine E4)

var (
	noiseOn    atomic.Bool
	noiseSeed  atomic.Uint64
	noiseCtr   atomic.Uint64
	noiseProb  atomic.Uint32 // per 2^16
	noiseSleep atomic.Uint32 // max sleep in microseconds (0 = Gosched only)
)

// SetNoise configures schedule noise: with probability prob (0..1) a yield point
// calls runtime.Gosched or sleeps up to maxSleepMicros. prob <= 0 disables.
func SetNoise(seed uint64, prob float64, maxSleepMicros int) {
	if prob <= 0 {
		noiseOn.Store(false)
		return
	}
	if prob > 1 {
		prob = 1
	}
	noiseSeed.Store(seed)
	noiseCtr.Store(0)
	noiseProb.Store(uint32(prob * 65536))
	noiseSleep.Store(uint32(maxSleepMicros))
	noiseOn.Store(true)
}

func noise() {
	z := noiseCtr.Add(0x9E3779B97F4A7C15) + noiseSeed.Load()
	z = (z ^ (z >> 30)) * 0xBF58476D1CE4E5B9
	z = (z ^ (z >> 27)) * 0x94D049BB133111EB
	z ^= z >> 31
	if uint32(z&0xFFFF) >= noiseProb.Load() {
		return
	}
	ms := noiseSleep.Load()
	if ms == 0 || (z>>16)&3 != 0 {
		runtime.Gosched()
		return
	}
	time.Sleep(time.Duration((z>>20)%uint64(ms)+1) * time.Microsecond)
}

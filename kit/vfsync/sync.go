//go:build verif

// Package vfsync mirrors the parts of package sync the goakt sources use. Under
// the deterministic scheduler (vfsched.Active() != nil) every primitive is
// cooperative: a thread that would block is parked with vfsched.BlockUntil so
// the scheduler can detect deadlocks and lost wake-ups exactly. With no
// scheduler the real sync primitives are used, with yield points around them.
package vfsync

import (
	"sync"

	"github.com/tochemey/goakt/v4/internal/vfsched"
)

type Locker = sync.Locker

func coop() bool { return vfsched.Active() != nil }

// ---- Mutex -------------------------------------------------------------------

type Mutex struct {
	mu   sync.Mutex
	held bool // cooperative mode only
}

func (m *Mutex) Lock() {
	if coop() {
		vfsched.Yield()
		for m.held {
			vfsched.BlockUntil(func() bool { return !m.held })
		}
		m.held = true
		vfsched.Yield()
		return
	}
	vfsched.Yield()
	m.mu.Lock()
}

// Held reports whether the mutex is held (cooperative mode only).
func (m *Mutex) Held() bool { return m.held }

func (m *Mutex) TryLock() bool {
	if coop() {
		vfsched.Yield()
		if m.held {
			return false
		}
		m.held = true
		vfsched.Yield()
		return true
	}
	vfsched.Yield()
	return m.mu.TryLock()
}

func (m *Mutex) Unlock() {
	if coop() {
		if !m.held {
			panic("vfsync: unlock of unlocked mutex")
		}
		m.held = false
		vfsched.Yield()
		return
	}
	m.mu.Unlock()
	vfsched.Yield()
}

// ---- RWMutex -----------------------------------------------------------------

type RWMutex struct {
	mu      sync.RWMutex
	writer  bool
	readers int
}

func (m *RWMutex) Lock() {
	if coop() {
		vfsched.Yield()
		for m.writer || m.readers > 0 {
			vfsched.BlockUntil(func() bool { return !m.writer && m.readers == 0 })
		}
		m.writer = true
		vfsched.Yield()
		return
	}
	vfsched.Yield()
	m.mu.Lock()
}

func (m *RWMutex) TryLock() bool {
	if coop() {
		vfsched.Yield()
		if m.writer || m.readers > 0 {
			return false
		}
		m.writer = true
		return true
	}
	return m.mu.TryLock()
}

func (m *RWMutex) Unlock() {
	if coop() {
		if !m.writer {
			panic("vfsync: unlock of unlocked RWMutex")
		}
		m.writer = false
		vfsched.Yield()
		return
	}
	m.mu.Unlock()
	vfsched.Yield()
}

func (m *RWMutex) RLock() {
	if coop() {
		vfsched.Yield()
		for m.writer {
			vfsched.BlockUntil(func() bool { return !m.writer })
		}
		m.readers++
		vfsched.Yield()
		return
	}
	vfsched.Yield()
	m.mu.RLock()
}

func (m *RWMutex) TryRLock() bool {
	if coop() {
		vfsched.Yield()
		if m.writer {
			return false
		}
		m.readers++
		return true
	}
	return m.mu.TryRLock()
}

func (m *RWMutex) RUnlock() {
	if coop() {
		if m.readers <= 0 {
			panic("vfsync: RUnlock of unlocked RWMutex")
		}
		m.readers--
		vfsched.Yield()
		return
	}
	m.mu.RUnlock()
	vfsched.Yield()
}

type rlocker RWMutex

func (r *rlocker) Lock()   { (*RWMutex)(r).RLock() }
func (r *rlocker) Unlock() { (*RWMutex)(r).RUnlock() }

func (m *RWMutex) RLocker() Locker { return (*rlocker)(m) }

// ---- Cond ----------------------------------------------------------------------

type condTicket struct{ signaled bool }

type Cond struct {
	L       Locker
	real    *sync.Cond
	waiters []*condTicket // cooperative mode only
}

// Waiting returns the number of cooperative waiters that have not been signalled.
func (c *Cond) Waiting() int { return len(c.waiters) }

func NewCond(l Locker) *Cond { return &Cond{L: l, real: sync.NewCond(l)} }

func (c *Cond) Wait() {
	if coop() {
		tk := &condTicket{}
		c.waiters = append(c.waiters, tk)
		c.L.Unlock()
		vfsched.BlockUntil(func() bool { return tk.signaled })
		c.L.Lock()
		return
	}
	c.real.Wait()
	vfsched.Yield()
}

// Signal wakes the longest-waiting goroutine (the order the Go runtime uses).
func (c *Cond) Signal() {
	if coop() {
		vfsched.Yield()
		if len(c.waiters) > 0 {
			c.waiters[0].signaled = true
			c.waiters = c.waiters[1:]
		}
		return
	}
	vfsched.Yield()
	c.real.Signal()
}

func (c *Cond) Broadcast() {
	if coop() {
		vfsched.Yield()
		for _, w := range c.waiters {
			w.signaled = true
		}
		c.waiters = nil
		return
	}
	vfsched.Yield()
	c.real.Broadcast()
}

// ---- WaitGroup -----------------------------------------------------------------

type WaitGroup struct {
	wg sync.WaitGroup
	n  int // cooperative mode only
}

func (w *WaitGroup) Add(d int) {
	if coop() {
		vfsched.Yield()
		w.n += d
		if w.n < 0 {
			panic("vfsync: negative WaitGroup counter")
		}
		return
	}
	w.wg.Add(d)
}

func (w *WaitGroup) Done() { w.Add(-1) }

func (w *WaitGroup) Wait() {
	if coop() {
		vfsched.Yield()
		for w.n > 0 {
			vfsched.BlockUntil(func() bool { return w.n == 0 })
		}
		return
	}
	w.wg.Wait()
	vfsched.Yield()
}

func (w *WaitGroup) Go(f func()) {
	w.Add(1)
	go func() {
		defer w.Done()
		f()
	}()
}

// ---- Once ----------------------------------------------------------------------

type Once struct {
	once    sync.Once
	done    bool
	running bool
}

func (o *Once) Do(f func()) {
	if coop() {
		vfsched.Yield()
		if o.done {
			return
		}
		for o.running {
			vfsched.BlockUntil(func() bool { return !o.running })
		}
		if o.done {
			return
		}
		o.running = true
		defer func() { o.done, o.running = true, false }()
		f()
		return
	}
	o.once.Do(f)
}

func OnceFunc(f func()) func()                                 { return sync.OnceFunc(f) }
func OnceValue[T any](f func() T) func() T                     { return sync.OnceValue(f) }
func OnceValues[T1, T2 any](f func() (T1, T2)) func() (T1, T2) { return sync.OnceValues(f) }

// ---- Pool ----------------------------------------------------------------------

// Pool is sync.Pool; under the deterministic scheduler it is a LIFO free list
// (a legal Pool behaviour) so that immediate reuse of a recycled object (ABA) is
// reachable and replayable.
type Pool struct {
	New  func() any
	real sync.Pool
	free []any
	once sync.Once
}

// Deterministic forces the LIFO free list even without a scheduler (used by
// harnesses that want immediate reuse on the real runtime). Guarded by a mutex.
var (
	Deterministic bool
	detMu         sync.Mutex
)

func (p *Pool) Get() any {
	if coop() {
		vfsched.Yield()
		if n := len(p.free); n > 0 {
			v := p.free[n-1]
			p.free = p.free[:n-1]
			return v
		}
		if p.New != nil {
			return p.New()
		}
		return nil
	}
	if Deterministic {
		detMu.Lock()
		if n := len(p.free); n > 0 {
			v := p.free[n-1]
			p.free = p.free[:n-1]
			detMu.Unlock()
			return v
		}
		detMu.Unlock()
		if p.New != nil {
			return p.New()
		}
		return nil
	}
	vfsched.Yield()
	p.once.Do(func() { p.real.New = p.New })
	return p.real.Get()
}

func (p *Pool) Put(v any) {
	if coop() {
		vfsched.Yield()
		p.free = append(p.free, v)
		return
	}
	if Deterministic {
		detMu.Lock()
		p.free = append(p.free, v)
		detMu.Unlock()
		return
	}
	vfsched.Yield()
	p.once.Do(func() { p.real.New = p.New })
	p.real.Put(v)
}

// Drain empties the cooperative free list (harness reset between cases).
func (p *Pool) Drain() { p.free = nil }

// ---- Map -----------------------------------------------------------------------

type Map struct{ m sync.Map }

func y() { vfsched.Yield() }

func (m *Map) Load(k any) (any, bool)           { y(); v, ok := m.m.Load(k); y(); return v, ok }
func (m *Map) Store(k, v any)                   { y(); m.m.Store(k, v); y() }
func (m *Map) Clear()                           { y(); m.m.Clear(); y() }
func (m *Map) LoadOrStore(k, v any) (any, bool) { y(); a, l := m.m.LoadOrStore(k, v); y(); return a, l }
func (m *Map) LoadAndDelete(k any) (any, bool)  { y(); v, l := m.m.LoadAndDelete(k); y(); return v, l }
func (m *Map) Delete(k any)                     { y(); m.m.Delete(k); y() }
func (m *Map) Swap(k, v any) (any, bool)        { y(); p, l := m.m.Swap(k, v); y(); return p, l }
func (m *Map) CompareAndSwap(k, o, n any) bool  { y(); r := m.m.CompareAndSwap(k, o, n); y(); return r }
func (m *Map) CompareAndDelete(k, o any) bool   { y(); r := m.m.CompareAndDelete(k, o); y(); return r }
func (m *Map) Range(f func(k, v any) bool)      { y(); m.m.Range(f); y() }

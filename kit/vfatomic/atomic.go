//go:build verif

// Package vfatomic mirrors the API of sync/atomic. Every operation is the real
// atomic operation bracketed by two scheduling points (vfsched.Yield), so that
// under the deterministic scheduler a logical thread can be pre-empted both
// before and after each atomic access, and under the real runtime seeded noise
// can be injected there.
package vfatomic

import (
	"sync/atomic"
	"unsafe"

	"github.com/tochemey/goakt/v4/internal/vfsched"
)

func y() { vfsched.Yield() }

// ---- typed values -----------------------------------------------------------

type Int32 struct{ v atomic.Int32 }

func (x *Int32) Load() int32          { y(); r := x.v.Load(); y(); return r }
func (x *Int32) Store(val int32)      { y(); x.v.Store(val); y() }
func (x *Int32) Swap(new int32) int32 { y(); r := x.v.Swap(new); y(); return r }
func (x *Int32) Add(d int32) int32    { y(); r := x.v.Add(d); y(); return r }
func (x *Int32) And(m int32) int32    { y(); r := x.v.And(m); y(); return r }
func (x *Int32) Or(m int32) int32     { y(); r := x.v.Or(m); y(); return r }
func (x *Int32) CompareAndSwap(o, n int32) bool {
	y()
	r := x.v.CompareAndSwap(o, n)
	y()
	return r
}

type Int64 struct{ v atomic.Int64 }

func (x *Int64) Load() int64          { y(); r := x.v.Load(); y(); return r }
func (x *Int64) Store(val int64)      { y(); x.v.Store(val); y() }
func (x *Int64) Swap(new int64) int64 { y(); r := x.v.Swap(new); y(); return r }
func (x *Int64) Add(d int64) int64    { y(); r := x.v.Add(d); y(); return r }
func (x *Int64) And(m int64) int64    { y(); r := x.v.And(m); y(); return r }
func (x *Int64) Or(m int64) int64     { y(); r := x.v.Or(m); y(); return r }
func (x *Int64) CompareAndSwap(o, n int64) bool {
	y()
	r := x.v.CompareAndSwap(o, n)
	y()
	return r
}

type Uint32 struct{ v atomic.Uint32 }

func (x *Uint32) Load() uint32           { y(); r := x.v.Load(); y(); return r }
func (x *Uint32) Store(val uint32)       { y(); x.v.Store(val); y() }
func (x *Uint32) Swap(new uint32) uint32 { y(); r := x.v.Swap(new); y(); return r }
func (x *Uint32) Add(d uint32) uint32    { y(); r := x.v.Add(d); y(); return r }
func (x *Uint32) And(m uint32) uint32    { y(); r := x.v.And(m); y(); return r }
func (x *Uint32) Or(m uint32) uint32     { y(); r := x.v.Or(m); y(); return r }
func (x *Uint32) CompareAndSwap(o, n uint32) bool {
	y()
	r := x.v.CompareAndSwap(o, n)
	y()
	return r
}

type Uint64 struct{ v atomic.Uint64 }

func (x *Uint64) Load() uint64           { y(); r := x.v.Load(); y(); return r }
func (x *Uint64) Store(val uint64)       { y(); x.v.Store(val); y() }
func (x *Uint64) Swap(new uint64) uint64 { y(); r := x.v.Swap(new); y(); return r }
func (x *Uint64) Add(d uint64) uint64    { y(); r := x.v.Add(d); y(); return r }
func (x *Uint64) And(m uint64) uint64    { y(); r := x.v.And(m); y(); return r }
func (x *Uint64) Or(m uint64) uint64     { y(); r := x.v.Or(m); y(); return r }
func (x *Uint64) CompareAndSwap(o, n uint64) bool {
	y()
	r := x.v.CompareAndSwap(o, n)
	y()
	return r
}

type Uintptr struct{ v atomic.Uintptr }

func (x *Uintptr) Load() uintptr            { y(); r := x.v.Load(); y(); return r }
func (x *Uintptr) Store(val uintptr)        { y(); x.v.Store(val); y() }
func (x *Uintptr) Swap(new uintptr) uintptr { y(); r := x.v.Swap(new); y(); return r }
func (x *Uintptr) Add(d uintptr) uintptr    { y(); r := x.v.Add(d); y(); return r }
func (x *Uintptr) CompareAndSwap(o, n uintptr) bool {
	y()
	r := x.v.CompareAndSwap(o, n)
	y()
	return r
}

type Bool struct{ v atomic.Bool }

func (x *Bool) Load() bool         { y(); r := x.v.Load(); y(); return r }
func (x *Bool) Store(val bool)     { y(); x.v.Store(val); y() }
func (x *Bool) Swap(new bool) bool { y(); r := x.v.Swap(new); y(); return r }
func (x *Bool) CompareAndSwap(o, n bool) bool {
	y()
	r := x.v.CompareAndSwap(o, n)
	y()
	return r
}

type Pointer[T any] struct{ v atomic.Pointer[T] }

func (x *Pointer[T]) Load() *T       { y(); r := x.v.Load(); y(); return r }
func (x *Pointer[T]) Store(val *T)   { y(); x.v.Store(val); y() }
func (x *Pointer[T]) Swap(new *T) *T { y(); r := x.v.Swap(new); y(); return r }
func (x *Pointer[T]) CompareAndSwap(o, n *T) bool {
	y()
	r := x.v.CompareAndSwap(o, n)
	y()
	return r
}

type Value struct{ v atomic.Value }

func (x *Value) Load() any                    { y(); r := x.v.Load(); y(); return r }
func (x *Value) Store(val any)                { y(); x.v.Store(val); y() }
func (x *Value) Swap(new any) any             { y(); r := x.v.Swap(new); y(); return r }
func (x *Value) CompareAndSwap(o, n any) bool { y(); r := x.v.CompareAndSwap(o, n); y(); return r }

// ---- functions ----------------------------------------------------------------

func AddInt32(a *int32, d int32) int32         { y(); r := atomic.AddInt32(a, d); y(); return r }
func AddInt64(a *int64, d int64) int64         { y(); r := atomic.AddInt64(a, d); y(); return r }
func AddUint32(a *uint32, d uint32) uint32     { y(); r := atomic.AddUint32(a, d); y(); return r }
func AddUint64(a *uint64, d uint64) uint64     { y(); r := atomic.AddUint64(a, d); y(); return r }
func AddUintptr(a *uintptr, d uintptr) uintptr { y(); r := atomic.AddUintptr(a, d); y(); return r }

func AndInt32(a *int32, m int32) int32     { y(); r := atomic.AndInt32(a, m); y(); return r }
func AndInt64(a *int64, m int64) int64     { y(); r := atomic.AndInt64(a, m); y(); return r }
func AndUint32(a *uint32, m uint32) uint32 { y(); r := atomic.AndUint32(a, m); y(); return r }
func AndUint64(a *uint64, m uint64) uint64 { y(); r := atomic.AndUint64(a, m); y(); return r }
func OrInt32(a *int32, m int32) int32      { y(); r := atomic.OrInt32(a, m); y(); return r }
func OrInt64(a *int64, m int64) int64      { y(); r := atomic.OrInt64(a, m); y(); return r }
func OrUint32(a *uint32, m uint32) uint32  { y(); r := atomic.OrUint32(a, m); y(); return r }
func OrUint64(a *uint64, m uint64) uint64  { y(); r := atomic.OrUint64(a, m); y(); return r }

func LoadInt32(a *int32) int32       { y(); r := atomic.LoadInt32(a); y(); return r }
func LoadInt64(a *int64) int64       { y(); r := atomic.LoadInt64(a); y(); return r }
func LoadUint32(a *uint32) uint32    { y(); r := atomic.LoadUint32(a); y(); return r }
func LoadUint64(a *uint64) uint64    { y(); r := atomic.LoadUint64(a); y(); return r }
func LoadUintptr(a *uintptr) uintptr { y(); r := atomic.LoadUintptr(a); y(); return r }
func LoadPointer(a *unsafe.Pointer) unsafe.Pointer {
	y()
	r := atomic.LoadPointer(a)
	y()
	return r
}

func StoreInt32(a *int32, v int32)       { y(); atomic.StoreInt32(a, v); y() }
func StoreInt64(a *int64, v int64)       { y(); atomic.StoreInt64(a, v); y() }
func StoreUint32(a *uint32, v uint32)    { y(); atomic.StoreUint32(a, v); y() }
func StoreUint64(a *uint64, v uint64)    { y(); atomic.StoreUint64(a, v); y() }
func StoreUintptr(a *uintptr, v uintptr) { y(); atomic.StoreUintptr(a, v); y() }
func StorePointer(a *unsafe.Pointer, v unsafe.Pointer) {
	y()
	atomic.StorePointer(a, v)
	y()
}

func SwapInt32(a *int32, v int32) int32         { y(); r := atomic.SwapInt32(a, v); y(); return r }
func SwapInt64(a *int64, v int64) int64         { y(); r := atomic.SwapInt64(a, v); y(); return r }
func SwapUint32(a *uint32, v uint32) uint32     { y(); r := atomic.SwapUint32(a, v); y(); return r }
func SwapUint64(a *uint64, v uint64) uint64     { y(); r := atomic.SwapUint64(a, v); y(); return r }
func SwapUintptr(a *uintptr, v uintptr) uintptr { y(); r := atomic.SwapUintptr(a, v); y(); return r }
func SwapPointer(a *unsafe.Pointer, v unsafe.Pointer) unsafe.Pointer {
	y()
	r := atomic.SwapPointer(a, v)
	y()
	return r
}

func CompareAndSwapInt32(a *int32, o, n int32) bool {
	y()
	r := atomic.CompareAndSwapInt32(a, o, n)
	y()
	return r
}
func CompareAndSwapInt64(a *int64, o, n int64) bool {
	y()
	r := atomic.CompareAndSwapInt64(a, o, n)
	y()
	return r
}
func CompareAndSwapUint32(a *uint32, o, n uint32) bool {
	y()
	r := atomic.CompareAndSwapUint32(a, o, n)
	y()
	return r
}
func CompareAndSwapUint64(a *uint64, o, n uint64) bool {
	y()
	r := atomic.CompareAndSwapUint64(a, o, n)
	y()
	return r
}
func CompareAndSwapUintptr(a *uintptr, o, n uintptr) bool {
	y()
	r := atomic.CompareAndSwapUintptr(a, o, n)
	y()
	return r
}
func CompareAndSwapPointer(a *unsafe.Pointer, o, n unsafe.Pointer) bool {
	y()
	r := atomic.CompareAndSwapPointer(a, o, n)
	y()
	return r
}

// ---- harness-only accessors (no scheduling point) ---------------------------------

func (x *Int32) Peek() int32   { return x.v.Load() }
func (x *Int64) Peek() int64   { return x.v.Load() }
func (x *Uint32) Peek() uint32 { return x.v.Load() }
func (x *Uint64) Peek() uint64 { return x.v.Load() }
func (x *Bool) Peek() bool     { return x.v.Load() }
func (x *Pointer[T]) Peek() *T { return x.v.Load() }

//go:build verif

// Package vfkit is the harness kit shared by every /verif check. It is mapped
// into the goakt module at internal/vfkit through `go test -overlay`; nothing of
// it exists in /repo.
//
// A check is a Spec: Gen draws a plain, JSON-serialisable Case from rapid; Exec
// runs the case against the real code and reports through X. The kit counts
// cases, hashes the non-trivial ones, keeps samples, classifies violations
// against /verif/known_findings.json, stores the last (= shrunk) failing case as
// a replay file and writes a statistics file the driver (`/verif/vf`) merges
// into the evidence.
package vfkit

import (
	"encoding/json"
	"fmt"
	"hash/fnv"
	"os"
	"path/filepath"
	"runtime/debug"
	"sort"
	"strconv"
	"strings"
	"sync"
	"testing"
	"time"

	"pgregory.net/rapid"
)

// Spec describes one unit of a property check.
type Spec[C any] struct {
	ID   string // property id, e.g. "C08"
	Unit string // unit name, unique within the property
	Rule string // how cases are generated and what makes one non-trivial
	Gen  func(t *rapid.T) C
	Exec func(x *X, c C)
	// ReplayReps is the number of executions of a replayed case (default 1;
	// >1 for checks that run on the real Go scheduler).
	ReplayReps int
	// CrashSafe makes the kit persist the current case before executing it, so
	// that a hard process death can be attributed to a case by the driver.
	CrashSafe bool
}

// failure is the sentinel carried by the panic X.Failf raises.
type failure struct {
	fp  string
	msg string
}

// X is the per-execution context handed to Exec.
type X struct {
	rt       *rapid.T // nil in replay mode
	id       string
	trail    []int // lazily drawn choices (recorded / replayed)
	trailPos int
	replay   bool
	nontriv  bool
	classes  map[string]int
	log      []string
	notes    map[string]any
	mu       sync.Mutex
}

// Failf reports a violation of the property with a root-cause fingerprint. It
// does not return: the execution of the case ends here.
func (x *X) Failf(fingerprint, format string, args ...any) {
	panic(&failure{fp: fingerprint, msg: fmt.Sprintf(format, args...)})
}

// Class counts the case in a named class (for the generator-distribution
// report). Safe for concurrent use.
func (x *X) Class(name string) {
	x.mu.Lock()
	x.classes[name]++
	x.mu.Unlock()
}

// NonTrivial marks the case as non-trivial by the unit's stated rule.
func (x *X) NonTrivial() { x.mu.Lock(); x.nontriv = true; x.mu.Unlock() }

// Logf appends a line to the history kept with a failing case.
func (x *X) Logf(format string, args ...any) {
	x.mu.Lock()
	if len(x.log) < 4000 {
		x.log = append(x.log, fmt.Sprintf(format, args...))
	}
	x.mu.Unlock()
}

// Note attaches a key/value to the case record (kept in samples and replays).
func (x *X) Note(key string, v any) {
	x.mu.Lock()
	if x.notes == nil {
		x.notes = map[string]any{}
	}
	x.notes[key] = v
	x.mu.Unlock()
}

// Choose lazily draws an integer in [0,n). In generation mode the value comes
// from rapid (so it shrinks and replays with the case) and is recorded; in
// replay mode it is read back from the recorded trail (0 when exhausted).
func (x *X) Choose(label string, n int) int {
	if n <= 1 {
		return 0
	}
	if x.replay {
		v := 0
		if x.trailPos < len(x.trail) {
			v = x.trail[x.trailPos]
			x.trailPos++
		}
		if v >= n || v < 0 {
			v = 0
		}
		return v
	}
	v := rapid.IntRange(0, n-1).Draw(x.rt, label)
	x.trail = append(x.trail, v)
	return v
}

// Known reports whether a fingerprint is listed as a known (unrepaired) finding
// of this property; generators use it to exclude a finding by construction.
func (x *X) Known(fingerprint string) bool { return isKnown(x.id, fingerprint) }

// Thorough reports whether the run is in the thorough tier.
func (x *X) Thorough() bool { return Tier() == "thorough" }

// Tier returns "quick" or "thorough".
func Tier() string {
	if os.Getenv("VERIF_TIER") == "thorough" || os.Getenv("VF_TIER") == "thorough" {
		return "thorough"
	}
	return "quick"
}

// Thorough reports whether the run is in the thorough tier.
func Thorough() bool { return Tier() == "thorough" }

// Seed returns VERIF_SEED (default 1).
func Seed() int64 {
	v, err := strconv.ParseInt(os.Getenv("VERIF_SEED"), 10, 64)
	if err != nil {
		return 1
	}
	return v
}

// Known reports whether fingerprint fp of property id is a listed known finding.
func Known(id, fp string) bool { return isKnown(id, fp) }

// ---------------------------------------------------------------------------
// known findings

type knownEntry struct {
	Property    string `json:"property"`
	Fingerprint string `json:"fingerprint"`
	WhatFails   string `json:"what_fails"`
	Status      string `json:"status"`
}

var (
	knownOnce sync.Once
	knownList []knownEntry
)

func loadKnown() {
	knownOnce.Do(func() {
		p := os.Getenv("VF_KNOWN")
		if p == "" {
			return
		}
		b, err := os.ReadFile(p)
		if err != nil {
			return
		}
		var doc struct {
			Findings []knownEntry `json:"findings"`
		}
		if json.Unmarshal(b, &doc) == nil {
			knownList = doc.Findings
		}
	})
}

func matchFP(pattern, fp string) bool {
	if strings.HasSuffix(pattern, "*") {
		return strings.HasPrefix(fp, strings.TrimSuffix(pattern, "*"))
	}
	return pattern == fp
}

func isKnown(id, fp string) bool {
	loadKnown()
	for _, k := range knownList {
		if k.Property == id && k.Status == "known" && matchFP(k.Fingerprint, fp) {
			return true
		}
	}
	return false
}

// ---------------------------------------------------------------------------
// statistics

type violation struct {
	Fingerprint string `json:"fingerprint"`
	Message     string `json:"message"`
	Replay      string `json:"replay"`
}

type stats struct {
	Property      string         `json:"property"`
	Unit          string         `json:"unit"`
	Rule          string         `json:"rule"`
	Evaluations   int            `json:"evaluations"`
	NonTrivial    int            `json:"nontrivial"`
	Hashes        []uint64       `json:"hashes"`
	HashesCapped  bool           `json:"hashes_capped"`
	Classes       map[string]int `json:"classes"`
	Samples       []any          `json:"samples"`
	KnownHits     map[string]int `json:"known_hits"`
	Violations    []violation    `json:"violations"`
	BudgetHit     bool           `json:"budget_hit"`
	SkippedBudget int            `json:"skipped_after_budget"`
	WallS         float64        `json:"wall_s"`
	Seed          uint64         `json:"rapid_seed"`
	Shard         string         `json:"shard"`
}

const hashCap = 400000

type runner struct {
	st       stats
	hashes   map[uint64]struct{}
	start    time.Time
	budget   time.Duration
	lastFail *replayDoc
	outDir   string
	shard    string
	biggest  int
}

type replayDoc struct {
	Property    string          `json:"property"`
	Unit        string          `json:"unit"`
	Fingerprint string          `json:"fingerprint"`
	Message     string          `json:"message"`
	Case        json.RawMessage `json:"case"`
	Trail       []int           `json:"trail,omitempty"`
	History     []string        `json:"history,omitempty"`
	Notes       map[string]any  `json:"notes,omitempty"`
}

func hash64(b []byte, trail []int) uint64 {
	h := fnv.New64a()
	_, _ = h.Write(b)
	for _, v := range trail {
		_, _ = h.Write([]byte{byte(v), byte(v >> 8)})
	}
	return h.Sum64()
}

func sampleOf(caseJSON []byte, x *X) any {
	var v any
	if len(caseJSON) > 6000 {
		v = map[string]any{"truncated_case_json": string(caseJSON[:6000])}
	} else if json.Unmarshal(caseJSON, &v) != nil {
		v = string(caseJSON)
	}
	m := map[string]any{"case": v}
	if len(x.classes) > 0 {
		cl := make([]string, 0, len(x.classes))
		for k := range x.classes {
			cl = append(cl, k)
		}
		sort.Strings(cl)
		m["classes"] = cl
	}
	if len(x.notes) > 0 {
		m["notes"] = x.notes
	}
	if len(x.trail) > 0 {
		if len(x.trail) > 200 {
			m["trail_len"] = len(x.trail)
		} else {
			m["trail"] = x.trail
		}
	}
	return m
}

// execOnce runs Exec, converting a Failf sentinel or a foreign panic into a
// failure value; rapid's own control-flow panics pass through untouched.
func execOnce[C any](s *Spec[C], x *X, c C) (f *failure) {
	defer func() {
		p := recover()
		if p == nil {
			return
		}
		if fl, ok := p.(*failure); ok {
			f = fl
			return
		}
		if strings.HasPrefix(fmt.Sprintf("%T", p), "rapid.") || strings.HasPrefix(fmt.Sprintf("%T", p), "*rapid.") {
			panic(p)
		}
		f = &failure{fp: "panic", msg: fmt.Sprintf("panic in check: %v\n%s", p, debug.Stack())}
	}()
	s.Exec(x, c)
	return nil
}

// Run drives one unit. With VF_REPLAY set it replays that file, bypassing rapid.
func Run[C any](t *testing.T, s Spec[C]) {
	t.Helper()
	if s.Unit == "" {
		s.Unit = t.Name()
	}
	if rp := os.Getenv("VF_REPLAY"); rp != "" {
		replayFile(t, &s, rp)
		return
	}
	r := &runner{hashes: map[uint64]struct{}{}, start: time.Now()}
	r.st.Property, r.st.Unit, r.st.Rule = s.ID, s.Unit, s.Rule
	r.st.Classes, r.st.KnownHits = map[string]int{}, map[string]int{}
	r.outDir = os.Getenv("VF_OUT")
	r.shard = os.Getenv("VF_SHARD")
	r.st.Shard = r.shard
	if b, err := strconv.ParseFloat(os.Getenv("VF_BUDGET_S"), 64); err == nil && b > 0 {
		r.budget = time.Duration(b * float64(time.Second))
	}
	t.Cleanup(func() { r.finish(t) })

	rapid.Check(t, func(rt *rapid.T) {
		if r.budget > 0 && time.Since(r.start) > r.budget {
			r.st.BudgetHit = true
			r.st.SkippedBudget++
			return
		}
		c := s.Gen(rt)
		caseJSON, err := json.Marshal(c)
		if err != nil {
			t.Fatalf("vfkit: case not serialisable: %v", err)
		}
		x := &X{rt: rt, id: s.ID, classes: map[string]int{}}
		if s.CrashSafe && r.outDir != "" {
			_ = os.WriteFile(filepath.Join(r.outDir, "current-"+s.Unit+"-"+r.shard+".json"), mustJSON(replayDoc{Property: s.ID, Unit: s.Unit, Fingerprint: "process-crash", Case: caseJSON}), 0o644)
		}
		f := execOnce(&s, x, c)
		r.account(caseJSON, x)
		if f == nil {
			return
		}
		if isKnown(s.ID, f.fp) {
			r.st.KnownHits[f.fp]++
			return
		}
		r.lastFail = &replayDoc{Property: s.ID, Unit: s.Unit, Fingerprint: f.fp, Message: f.msg, Case: caseJSON, Trail: append([]int(nil), x.trail...), History: x.log, Notes: x.notes}
		rt.Fatalf("VF-FAIL property=%s unit=%s fingerprint=%s: %s", s.ID, s.Unit, f.fp, f.msg)
	})
}

func mustJSON(v any) []byte {
	b, err := json.MarshalIndent(v, "", " ")
	if err != nil {
		return []byte(fmt.Sprintf("{\"error\":%q}", err.Error()))
	}
	return b
}

func (r *runner) account(caseJSON []byte, x *X) {
	r.st.Evaluations++
	for k, v := range x.classes {
		if v > 0 {
			r.st.Classes[k]++
		}
	}
	first := r.st.Evaluations == 1
	if x.nontriv {
		r.st.NonTrivial++
		h := hash64(caseJSON, x.trail)
		if _, ok := r.hashes[h]; !ok {
			if len(r.hashes) < hashCap {
				r.hashes[h] = struct{}{}
			} else {
				r.st.HashesCapped = true
			}
		}
		n := r.st.NonTrivial
		size := len(caseJSON) + 2*len(x.trail)
		// keep the 1st, 10th, 100th, ... non-trivial case and the largest one seen early on
		if n == 1 || n == 10 || n == 100 || n == 1000 || n == 10000 {
			r.st.Samples = append(r.st.Samples, sampleOf(caseJSON, x))
		} else if size > r.biggest && len(r.st.Samples) < 8 && n < 5000 && n%7 == 0 {
			r.st.Samples = append(r.st.Samples, sampleOf(caseJSON, x))
		}
		if size > r.biggest {
			r.biggest = size
		}
	} else if first {
		r.st.Samples = append(r.st.Samples, sampleOf(caseJSON, x))
	}
}

func (r *runner) finish(t *testing.T) {
	r.st.WallS = time.Since(r.start).Seconds()
	r.st.Hashes = make([]uint64, 0, len(r.hashes))
	for h := range r.hashes {
		r.st.Hashes = append(r.st.Hashes, h)
	}
	sort.Slice(r.st.Hashes, func(i, j int) bool { return r.st.Hashes[i] < r.st.Hashes[j] })
	if t.Failed() && r.lastFail != nil {
		name := fmt.Sprintf("%s-%s-%016x.json", r.st.Property, sanitize(r.st.Unit), hash64(r.lastFail.Case, r.lastFail.Trail))
		dir := os.Getenv("VF_REPLAYS")
		if dir == "" {
			dir = r.outDir
		}
		path := filepath.Join(dir, name)
		if dir != "" {
			_ = os.MkdirAll(dir, 0o755)
			_ = os.WriteFile(path, mustJSON(r.lastFail), 0o644)
		}
		r.st.Violations = append(r.st.Violations, violation{Fingerprint: r.lastFail.Fingerprint, Message: firstLines(r.lastFail.Message, 12), Replay: path})
	} else if t.Failed() {
		r.st.Violations = append(r.st.Violations, violation{Fingerprint: "harness-failure", Message: "test failed without a recorded failing case (see log)", Replay: ""})
	}
	if r.outDir != "" {
		_ = os.MkdirAll(r.outDir, 0o755)
		_ = os.WriteFile(filepath.Join(r.outDir, "stats-"+sanitize(r.st.Unit)+"-"+r.shard+".json"), mustJSON(r.st), 0o644)
		_ = os.Remove(filepath.Join(r.outDir, "current-"+r.st.Unit+"-"+r.shard+".json"))
	}
}

func sanitize(s string) string {
	b := []byte(s)
	for i, c := range b {
		if !(c >= 'a' && c <= 'z' || c >= 'A' && c <= 'Z' || c >= '0' && c <= '9' || c == '_' || c == '-') {
			b[i] = '_'
		}
	}
	return string(b)
}

func firstLines(s string, n int) string {
	parts := strings.SplitN(s, "\n", n+1)
	if len(parts) > n {
		parts = parts[:n]
	}
	return strings.Join(parts, "\n")
}

// replayFile executes a stored case through Exec, bypassing rapid.
func replayFile[C any](t *testing.T, s *Spec[C], path string) {
	b, err := os.ReadFile(path)
	if err != nil {
		t.Fatalf("vfkit: cannot read replay file: %v", err)
	}
	var doc replayDoc
	if err := json.Unmarshal(b, &doc); err != nil {
		t.Fatalf("vfkit: bad replay file: %v", err)
	}
	if doc.Unit != s.Unit || doc.Property != s.ID {
		t.Skipf("replay file is for %s/%s", doc.Property, doc.Unit)
	}
	var c C
	if err := json.Unmarshal(doc.Case, &c); err != nil {
		t.Fatalf("vfkit: bad case in replay file: %v", err)
	}
	reps := s.ReplayReps
	if reps <= 0 {
		reps = 1
	}
	violated := 0
	var last *failure
	for i := 0; i < reps; i++ {
		x := &X{id: s.ID, classes: map[string]int{}, replay: true, trail: doc.Trail}
		if f := execOnce(s, x, c); f != nil {
			violated++
			last = f
		}
	}
	fmt.Printf("VF-REPLAY property=%s unit=%s violated=%d/%d\n", s.ID, s.Unit, violated, reps)
	if last != nil {
		known := isKnown(s.ID, last.fp)
		fmt.Printf("VF-REPLAY-FAIL fingerprint=%s known=%v: %s\n", last.fp, known, last.msg)
		t.Fail()
	}
}

//go:build verif

// Package vfe3 holds the harness-side pieces of engine E3: a rapid-driven,
// pre-emption-bounded schedule picker for vfsched and a small exhaustive
// linearizability checker for short histories.
package vfe3

import (
	"fmt"
	"sort"
	"strings"

	"github.com/tochemey/goakt/v4/internal/vfkit"
	"github.com/tochemey/goakt/v4/internal/vfsched"
)

// Picker returns a schedule picker whose every decision is a lazy draw of x
// (recorded in the case trail, so the schedule shrinks and replays). A decision
// picks a runnable thread and a budget: with probability 0.7 "run to the next
// operation boundary", otherwise "run 1..12 yield points and pre-empt".
// Uniform per-step choice was measured to be useless for these structures; the
// bounded-pre-emption shape reaches the narrow windows.
func Picker(x *vfkit.X) vfsched.Picker {
	return func(runnable []*vfsched.Thread) (int, int) {
		idx := x.Choose("thread", len(runnable))
		if x.Choose("budgetKind", 10) < 7 {
			return idx, -1
		}
		return idx, 1 + x.Choose("yields", 12)
	}
}

// Opts tunes PickerWith.
type Opts struct {
	PreemptPct  int  // percentage of decisions that pre-empt inside an operation (default 30)
	MaxYields   int  // a pre-empting decision runs 1..MaxYields yield points (default 12)
	AvoidRepick bool // never hand the baton straight back to the thread that was just pre-empted
}

// PickerWith is Picker with tunable shape. Long operations (tens of yield points) need a
// MaxYields that covers them, otherwise a window late in the operation can only be reached
// by two consecutive pre-emptions of the same thread.
func PickerWith(x *vfkit.X, o Opts) vfsched.Picker {
	if o.PreemptPct <= 0 {
		o.PreemptPct = 30
	}
	if o.MaxYields <= 0 {
		o.MaxYields = 12
	}
	last := -1
	return func(runnable []*vfsched.Thread) (int, int) {
		cand := runnable
		if o.AvoidRepick && last >= 0 && len(runnable) > 1 {
			cand = cand[:0:0]
			for _, t := range runnable {
				if t.ID != last {
					cand = append(cand, t)
				}
			}
		}
		pick := cand[x.Choose("thread", len(cand))]
		idx := 0
		for i, t := range runnable {
			if t == pick {
				idx = i
			}
		}
		if x.Choose("budgetKind", 100) >= o.PreemptPct {
			last = -1
			return idx, -1
		}
		last = pick.ID
		return idx, 1 + x.Choose("yields", o.MaxYields)
	}
}

// Op is one completed operation of a concurrent history: invoked at logical time
// Inv, returned at Ret (Inv < Ret; times are unique).
type Op struct {
	Inv, Ret int
	Thread   int
	Name     string
	Arg      [3]int // operation arguments (meaning is the model's)
	Res      [2]int // operation results (meaning is the model's)
}

func (o Op) String() string {
	return fmt.Sprintf("[%d..%d t%d %s%v->%v]", o.Inv, o.Ret, o.Thread, o.Name, o.Arg, o.Res)
}

// Clock is a logical clock shared by the logical threads of one case (only one
// runs at a time, so a plain counter is enough).
type Clock struct{ now int }

func (c *Clock) Tick() int { c.now++; return c.now }

// Linearizable reports whether ops has a linearization accepted by the
// sequential model: step(state, op) returns the next state and whether op's
// recorded result is legal in state. key must identify a state up to
// observational equivalence (used for memoisation). Exhaustive DFS; intended for
// histories of at most ~20 operations.
func Linearizable[S any](ops []Op, init S, step func(S, Op) (S, bool), key func(S) string) bool {
	n := len(ops)
	if n == 0 {
		return true
	}
	if n > 62 {
		panic("vfe3: history too long for the exhaustive checker")
	}
	sorted := append([]Op(nil), ops...)
	sort.Slice(sorted, func(i, j int) bool { return sorted[i].Inv < sorted[j].Inv })
	dead := map[string]struct{}{}
	var dfs func(done uint64, st S) bool
	dfs = func(done uint64, st S) bool {
		if done == (uint64(1)<<uint(n))-1 {
			return true
		}
		k := fmt.Sprintf("%x|%s", done, key(st))
		if _, bad := dead[k]; bad {
			return false
		}
		// an undone op may be linearized next iff no other undone op returned before it was invoked
		minRet := int(^uint(0) >> 1)
		for i := 0; i < n; i++ {
			if done&(1<<uint(i)) == 0 && sorted[i].Ret < minRet {
				minRet = sorted[i].Ret
			}
		}
		for i := 0; i < n; i++ {
			if done&(1<<uint(i)) != 0 || sorted[i].Inv > minRet {
				continue
			}
			if ns, ok := step(st, sorted[i]); ok {
				if dfs(done|1<<uint(i), ns) {
					return true
				}
			}
		}
		dead[k] = struct{}{}
		return false
	}
	return dfs(0, init)
}

// FormatOps renders a history for failure messages.
func FormatOps(ops []Op) string {
	s := append([]Op(nil), ops...)
	sort.Slice(s, func(i, j int) bool { return s[i].Inv < s[j].Inv })
	parts := make([]string, len(s))
	for i, o := range s {
		parts[i] = o.String()
	}
	return strings.Join(parts, " ")
}

//go:build verif

package actor

import (
	"context"
	"fmt"

	"pgregory.net/rapid"

	"github.com/tochemey/goakt/v4/internal/address"
	"github.com/tochemey/goakt/v4/internal/vfe3"
	"github.com/tochemey/goakt/v4/internal/vfkit"
	"github.com/tochemey/goakt/v4/internal/vfsched"
	"github.com/tochemey/goakt/v4/log"
)

// Shared E3 harness for C01 / C02 / C03 (component level): bare PIDs (mailbox,
// system mailbox, behaviour stack, dispatch state) driven through the REAL
// doReceive -> TrySchedule -> readyQueue -> worker.run -> runTurn ->
// finishOrReclaim path by producer threads and real worker loops, under a drawn
// pre-emption-bounded interleaving of every atomic / lock operation of the
// import-swapped mailbox, dispatch-state, ready-queue and dispatcher files.

type vfTurnSend struct {
	Actor   int  `json:"actor"`
	Control bool `json:"control,omitempty"` // a control message (system mailbox path)
	Yields  int  `json:"yields,omitempty"`  // scheduling points inside the handler
}

type vfTurnCase struct {
	Kind       string         `json:"kind"`
	Actors     int            `json:"actors"`
	Workers    int            `json:"workers"`
	Throughput int            `json:"throughput"`
	Producers  [][]vfTurnSend `json:"producers"`
	// Senders[i] is the sender identity producer thread i uses for all of its sends (one
	// goroutine = one sender, as in real use); two threads may share an identity, which is
	// what puts two goroutines on one sub-queue of the fair mailbox.
	Senders []int `json:"senders"`
}

var vfTurnAllKinds = []string{"unbounded", "fair", "segmented", "nbbounded", "bounded", "upriority", "ustable", "bpriority", "bstable"}
var vfTurnFIFOKinds = []string{"unbounded", "fair", "segmented", "nbbounded", "bounded"}

func vfTurnGen(kinds []string) func(t *rapid.T) vfTurnCase {
	return func(t *rapid.T) vfTurnCase {
		c := vfTurnCase{
			Kind:       rapid.SampledFrom(kinds).Draw(t, "kind"),
			Actors:     rapid.SampledFrom([]int{1, 1, 2}).Draw(t, "actors"),
			Workers:    rapid.IntRange(2, 3).Draw(t, "workers"),
			Throughput: rapid.SampledFrom([]int{1, 2, 32}).Draw(t, "throughput"),
		}
		np := rapid.IntRange(1, 3).Draw(t, "producers")
		for p := 0; p < np; p++ {
			n := rapid.IntRange(1, 4).Draw(t, "sends")
			var ss []vfTurnSend
			for i := 0; i < n; i++ {
				ss = append(ss, vfTurnSend{
					Actor:   rapid.IntRange(0, c.Actors-1).Draw(t, "actor"),
					Control: rapid.IntRange(0, 9).Draw(t, "control") == 0,
					Yields:  rapid.SampledFrom([]int{0, 0, 1, 2}).Draw(t, "yields"),
				})
			}
			c.Producers = append(c.Producers, ss)
			c.Senders = append(c.Senders, rapid.IntRange(0, 1).Draw(t, "senderOfProducer"))
		}
		return c
	}
}

type vfTurnMsg struct {
	ID, Actor, Producer, Seq, Yields int
}

type vfTurnEvent struct {
	Kind           string // "enter" / "exit"
	Actor, ID      int
	Producer, Seq  int
	Worker, Thread int
	At             int
}

type vfTurnResult struct {
	Outcome     vfsched.Outcome
	Sched       *vfsched.Sched
	Events      []vfTurnEvent
	Sent        []vfTurnMsg // user messages handed to doReceive (all accepted: capacities exceed the traffic)
	Overlap     string      // first handler overlap observed ("" if none)
	Quiescent   bool        // the closer saw every worker parked with every producer done
	LeftInBoxes []int       // per actor: messages still queued at quiescence
	StuckState  []uint32    // per actor: dispatch state at quiescence
	Closed      bool
	HandlerPreempted bool
}

func vfTurnMailbox(kind string) Mailbox {
	pf := func(a, b any) bool { return false } // equal priorities: arrival order (stable kinds) / any order (heap kinds)
	switch kind {
	case "unbounded":
		return NewUnboundedMailbox()
	case "fair":
		return NewUnboundedFairMailbox()
	case "segmented":
		return NewUnboundedSegmentedMailbox()
	case "nbbounded":
		return NewNonBlockingBoundedMailbox(32)
	case "bounded":
		return NewBoundedMailbox(32)
	case "upriority":
		return NewUnboundedPriorityMailBox(pf)
	case "ustable":
		return NewUnboundedStablePriorityMailbox(pf)
	case "bpriority":
		return NewBoundedPriorityMailbox(32, pf)
	case "bstable":
		return NewBoundedStablePriorityMailbox(32, pf)
	}
	panic("unknown mailbox kind " + kind)
}

func vfTurnResetPools() {
	for {
		select {
		case <-contextCh:
			continue
		default:
		}
		break
	}
	segmentPool.Drain()
}

func vfTurnExec(x *vfkit.X, c vfTurnCase) *vfTurnResult {
	vfTurnResetPools()
	defer func() {
		vfTurnResetPools()
		for i := 0; i < 64; i++ {
			contextCh <- new(ReceiveContext)
		}
	}()
	res := &vfTurnResult{}
	d := newDispatcher(c.Workers, c.Throughput)
	rq := d.readyQueue
	clock := &vfe3.Clock{}
	inHandler := make([]int, c.Actors)
	pids := make([]*PID, c.Actors)
	senders := make([]*PID, 2)
	for i := range senders {
		senders[i] = &PID{path: newPath(address.New(fmt.Sprintf("sender%d", i), "vf", "127.0.0.1", 1))}
	}
	for a := 0; a < c.Actors; a++ {
		a := a
		pid := &PID{
			path:          newPath(address.New(fmt.Sprintf("actor%d", a), "vf", "127.0.0.1", 1)),
			mailbox:       vfTurnMailbox(c.Kind),
			systemMailbox: NewUnboundedMailbox(),
			behaviorStack: newBehaviorStack(),
			dispatcher:    d,
			logger:        log.DiscardLogger,
		}
		pid.behaviorStack.Push(func(rc *ReceiveContext) {
			m, ok := rc.Message().(*vfTurnMsg)
			if !ok {
				if res.Overlap == "" {
					res.Overlap = fmt.Sprintf("handler of actor %d received a context whose message is %T", a, rc.Message())
				}
				return
			}
			inHandler[a]++
			if inHandler[a] != 1 && res.Overlap == "" {
				res.Overlap = fmt.Sprintf("actor %d: handler entered for message %d while another invocation of the same actor's handler is in progress (thread %d)", a, m.ID, vfsched.CurrentID())
			}
			res.Events = append(res.Events, vfTurnEvent{Kind: "enter", Actor: a, ID: m.ID, Producer: m.Producer, Seq: m.Seq, Thread: vfsched.CurrentID(), At: clock.Tick()})
			for i := 0; i < m.Yields; i++ {
				vfsched.Yield()
			}
			res.Events = append(res.Events, vfTurnEvent{Kind: "exit", Actor: a, ID: m.ID, Producer: m.Producer, Seq: m.Seq, Thread: vfsched.CurrentID(), At: clock.Tick()})
			inHandler[a]--
			// a handler invocation is an operation boundary of the worker thread: "run to the
			// next boundary" then stops between two messages of a turn, which puts the end of
			// the turn (finishOrReclaim) within reach of one budgeted pre-emption
			vfsched.OpEnd()
		})
		pids[a] = pid
	}
	s := vfsched.New()
	s.MaxSteps = 30000
	res.Sched = s
	for i := 0; i < c.Workers; i++ {
		w := d.workers[i]
		s.Go(fmt.Sprintf("worker%d", i), func() { w.run() })
	}
	producersDone := 0
	nextID := 0
	for pi, sends := range c.Producers {
		pi, sends := pi, sends
		s.Go(fmt.Sprintf("producer%d", pi), func() {
			seq := 0
			for _, snd := range sends {
				rc := getContext()
				if snd.Control {
					rc.build(context.Background(), senders[c.Senders[pi]], pids[snd.Actor], &PausePassivation{}, true)
				} else {
					m := &vfTurnMsg{ID: nextID, Actor: snd.Actor, Producer: pi, Seq: seq, Yields: snd.Yields}
					nextID++
					seq++
					res.Sent = append(res.Sent, *m)
					rc.build(context.Background(), senders[c.Senders[pi]], pids[snd.Actor], m, true)
				}
				pids[snd.Actor].doReceive(rc)
				vfsched.OpEnd()
			}
			producersDone++
		})
	}
	s.Go("closer", func() {
		vfsched.BlockUntil(func() bool {
			return producersDone == len(c.Producers) && rq.parked == c.Workers && rq.cond.Waiting() == c.Workers
		})
		res.Quiescent = true
		for _, pid := range pids {
			left := int(pid.mailbox.Len())
			if !pid.systemMailbox.IsEmpty() {
				left++
			}
			if left == 0 && !pid.mailbox.IsEmpty() {
				left = 1
			}
			res.LeftInBoxes = append(res.LeftInBoxes, left)
			res.StuckState = append(res.StuckState, pid.schedState.Load())
		}
		res.Closed = true
		rq.close()
	})
	res.Outcome = s.Run(vfe3.PickerWith(x, vfe3.Opts{PreemptPct: 45, MaxYields: 40, AvoidRepick: true}))
	return res
}
